#!/bin/bash
# usage: ./check.sh <property-id> <quick|thorough> [extra gosym flags]
# Rebuilds the SSA/SMT encoding from /repo's current working tree on every run.
set -u
cd "$(dirname "$0")"
export GOFLAGS=-mod=mod GOPROXY=off GOSUMDB=off GOTOOLCHAIN=local
ID="$1"; TIER="${2:-quick}"; shift; shift || true
if [ ! -x bin/gosym ] || [ -n "$(find gosym -name '*.go' -newer bin/gosym 2>/dev/null | head -1)" ]; then
  (cd gosym && go build -o ../bin/gosym .) || { echo "gosym build failed"; exit 2; }
fi
exec ./bin/gosym -prop "$ID" -tier "$TIER" -verif "$(pwd)" "$@"
