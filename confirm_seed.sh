#!/bin/bash
# usage: confirm_seed.sh <worktree> <seed dir> <pkg dir (relative)> <demo test regex>
# Confirms in the scratch worktree: patch applies, package builds, existing tests of the package give the same verdicts
# with and without the patch, demo fails with the patch and passes without it. Prints a JSON-ish summary.
WT="$1"; SD="$2"; PKG="$3"; RX="$4"
export GOFLAGS=-mod=mod GOPROXY=off GOSUMDB=off GOTOOLCHAIN=local
cd "$WT" || exit 2
git checkout -q -- . ; rm -f "$PKG"/zz_seed_demo_test.go
verdicts() { # per-test verdicts of existing tests (each test in own process is too slow; use -json)
  timeout 900 go test -vet=off -count=1 -json -skip 'TestQuery|TestDefiDemo|TestAuth' ./"$PKG"/ 2>/dev/null | python3 -c "
import sys,json
r={}
for l in sys.stdin:
    try: e=json.loads(l)
    except: continue
    if e.get('Test') and e.get('Action') in ('pass','fail'): r[e['Test']]=e['Action']
print(' '.join(sorted(k+':'+v for k,v in r.items() if '/' not in k)))"
}
if [ -n "$SKIP_EXISTING" ]; then verdicts() { echo skipped; }; echo "existing tests: not re-run here (package tests hang/need services); per-test comparison by the authoring agent: $SKIP_EXISTING"; fi
BASE=$(verdicts)
git apply "$SD/patch.diff" || { echo "APPLY FAILED"; exit 1; }
go build ./"$PKG"/ && echo "build_with_patch=ok" || echo "build_with_patch=FAIL"
WITH=$(verdicts)
[ "$BASE" == "$WITH" ] && echo "existing_tests_same_verdicts=yes" || { echo "existing_tests_same_verdicts=NO"; echo "base: $BASE"; echo "with: $WITH"; }
cp "$SD/demo_test.go" "$PKG"/zz_seed_demo_test.go
timeout 600 go test -vet=off -count=1 -run "$RX" ./"$PKG"/ >/tmp/seed_demo_with.log 2>&1 && echo "demo_with_patch=PASS(unexpected)" || echo "demo_with_patch=fail(expected)"
git checkout -q -- .
timeout 600 go test -vet=off -count=1 -run "$RX" ./"$PKG"/ >/tmp/seed_demo_without.log 2>&1 && echo "demo_without_patch=pass(expected)" || echo "demo_without_patch=FAIL(unexpected)"
rm -f "$PKG"/zz_seed_demo_test.go
git status --short | grep -v '^??' | head -3
