# Table of claimed / not-applicable properties; MANIFEST.json is generated from it (gen_manifest.py).
CLAIMED = {
 "C05": {
  "text": "Bounded symbolic model checking of the real block store (addBlockOnChain, insertBlock, saveStates, updateLastBlock, remove, removeFromCommonAncestor, add/remove marks, ensureChainConsistency, the query functions) over recording stores: for every delivery order of a small block tree with symbolic chain weights the head stays linked to genesis, hash and height indexes agree with the head's chain, nothing above the head is indexed, the head's state opens from disk alone, the head never moves to a lighter chain and its block is marked executed; and for a process death after every physical write of a delivery followed by a restart the same invariant holds with the head being the old head, the new head or an ancestor.",
  "note": "Trusted: gosym and its models, z3, hashes as collision-free functions, atomic batches. Blocks are delivered pre-verified (execution and consensus checks are outside); five blocks.",
 },
 "C07": {
  "text": "Bounded symbolic model checking of the real TxPool.VerifyTransaction (verifyTxChainId, verifyTransactionHash, verifyTransactionSign, verifyETHTx, compareTx) with eth_tx.SignTx/Sender/ConvertTx and the rlp codec, over an ideal-signature model of secp256k1: every honestly signed native or EIP-155 transaction within the bounds is accepted; changing any one authenticated field (hash left or recomputed), the hash, the signature (any single bit, or another signer's), the chain id, or any wrapper field / payload bit of a wrapped Ethereum transaction makes it rejected.",
  "note": "Trusted: gosym and its models, z3, the ideal signature model standing in for the secp256k1 C library (validated on sampled paths against the real library), hashes as injective functions. Keys are concrete; nonce/type enumerated.",
 },
 "C08": {
  "text": "Bounded symbolic model checking of the real rlp package (EncodeToBytes/DecodeBytes/Split/Stream through a reflect model): for every byte string up to the stated length and every value of the listed Go types the solver shows round trip, canonicity (accepted input re-encodes to itself), totality (no panic path feasible) and allocation bounds; counterexamples are replayed natively.",
  "note": "Trusted: go/ssa front end, the gosym interpreter and its reflect/sync/big.Int models (validated on every run by executing solver models natively and comparing observations), z3. Inputs longer than the bound and types not listed are outside the claim.",
 },
 "C10": {
  "text": "Bounded symbolic model checking of the EVM word opcodes through the real EVMInterpreter.Run: for every 256-bit operand tuple the returned word equals the Yellow-Paper definition written as one SMT bit-vector operation; memory, stack-manipulation, jump-validity, calldata and return-data selection are checked against in-harness reference models for all offsets/sizes within the stated small ranges.",
  "note": "Trusted: gosym and its models, z3; holiman/uint256 multiply/divide/exp kernels (a module dependency) replaced by exact semantics, so for those opcodes what is decided is the glue in instructions.go (operand order, zero cases). Every Proposal fork active (height 2^40, mainnet config).",
 },
 "C17": {
  "text": "Bounded symbolic model checking of the real TxPool (AddTransaction/add, PackForCast/checkNonce with Transactions.Less, MarkExecuted, UnMarkExecuted, IsExisted, GetTransaction, simpleContainer) against an in-harness reference model: for every history within the bound and every nonce assignment, an executed transaction is neither accepted nor packed again, a reorged block's transactions are pending and packable again, a packed batch has no duplicates, respects the limit, keeps a sender's nonce-checked transactions in ascending order and contains none ahead of the sender's next expected nonce.",
  "note": "Trusted: gosym and its models, z3. Sequential histories only: the concurrency clause of the property (race freedom under parallel use) is outside what a single-goroutine symbolic execution decides and is not claimed.",
 },
 "C18": {
  "text": "Bounded symbolic model checking of the real utility.StrToBigInt / BigIntToStr / FormatDecimalForERC20 / FormatDecimalForRocket: for every integer below 2^256 and every decimal string within the stated digit counts the solver shows exact conversion (no binary rounding), with big.Float rounding modelled by the error bound of the precision and mode the code actually passes.",
  "note": "Trusted: gosym, z3, the interval model of math/big.Float rounding (over-approximation: unsat is sound; sat is replayed against the real library, several models are tried). A change that is wrong only on inputs the interval model cannot pin down may surface as INCONCLUSIVE instead of VIOLATION.",
 },
 "C02": {
  "text": "Bounded symbolic model checking of the real trie (TryUpdate/TryDelete/TryGet/Hash/Commit/NodeDatabase.Commit/reopen, hasher, node codec, hex-prefix encoding) against an independent in-harness transcription of the Yellow Paper root definition: for every history within the stated bounds and every value byte, reads return the last value written and the root equals the specification root; encoding lemmas for every nibble string within bounds.",
  "note": "Trusted: gosym and its models, z3, Keccak as an injective uninterpreted function on symbolic input. Key shapes are a fixed set of six (prefix relations, shared prefixes); histories are short (2, thorough 3).",
 },
 "C11": {
  "text": "Bounded symbolic model checking of one EVM instruction step through the real EVMInterpreter.Run for every opcode byte, operand magnitude class, gas limit and read-only flag (no host panic feasible, gas only decreases), of the call/create family with symbolic callee/value/gas, of the stack-bound lemma (each operation's declared maxStack equals its real stack effect), and exact lemmas for the gas/memory arithmetic kernels over all 64-bit arguments.",
  "note": "Trusted: gosym and its models, z3. Whole-program termination follows from the per-step results by induction (argued in DESIGN.md, not solved). Precompile cryptographic cores are stubbed. All Proposal forks active.",
 },
 "C12": {
  "text": "Bounded symbolic model checking on the real EVM over a real AccountDB: for every opcode byte executed in a read-only frame (also after a nested STATICCALL returned) and for every combination of 8 state mutators with 4 frame endings and 3 call values, every observer of the state (balances, nonce, storage, transient storage, logs, self-destruct flags, existence, code, state root) answers as before when the frame was static or failed; Prepare leaves no access-list / transient-storage / refund residue for arbitrary addresses and slots.",
  "note": "Trusted: gosym and its models, z3. Most inputs of these harnesses are enumerated choices (opcode byte, mutator, ending); symbolic values are the address/slot/value of the scratch-state harness. Nesting depth two.",
 },
 "C09": {
  "text": "Bounded symbolic model checking of the conversion layer between wire messages and the node's block/header/transaction/group objects (pbTo*/ *ToPb, Marshal*/UnMarshal*, GenHash): no panic for any presence pattern of optional fields; a header with symbolic integers, instants in three zones, prove values with leading zero bytes, optional byte fields and request-id maps keeps its content and its identifying hash through serialise/parse.",
  "note": "Trusted: gosym, z3, and the library codecs (protobuf, encoding/json) modelled by contract: identity on message structs / injective serialisation; SHA-256 as an injective uninterpreted function. The protobuf wire decoder on raw bytes is outside.",
 },
 "C03": {
  "text": "Bounded symbolic model checking of the real AccountDB.Commit + trie NodeDatabase.Commit/commit/uncache over a recording store: for two consecutive blocks of account/storage mutations (symbolic storage bytes, commits small or split over several physical batches) and every prefix of the physical batch writes of the second commit, the older root and every root whose top node is on disk are fully readable from a cold start with the committed values, and a commit that reported success has written its root.",
  "note": "Trusted: gosym and its models, z3, Keccak as a collision-free uninterpreted function, atomicity of a physical batch. Two blocks, three accounts; the orchestration in blockchain_add.go and LevelDB itself are outside.",
 },
 "C04": {
  "text": "Bounded symbolic model checking of the real AccountDB journal: for every mutator (15 kinds x 3 accounts x slots/amounts, symbolic value byte), one and two levels of Snapshot/Revert, from a committed state reopened cold and optionally dirtied, all observers answer as at the snapshot and the state root equals that of a twin on which the reverted operations never ran.",
  "note": "Trusted: gosym and its models, z3. Four instances of one genuine defect are listed as known findings (Empty() not restored after reverting a storage write on an account without cached storage). Histories of at most three mutators.",
 },
 "C13": {
  "text": "Bounded symbolic model checking of the node's own key generation and threshold recovery (groupNodeInfo.handleSharePiece/aggregateKeys, groupsig.ShareSeckey/AggregateSeckeys/AggregatePubkeys/Sign/VerifySig/RecoverGroupSignature/recoverSignature, model.GroupSignGenerator) with every dealer polynomial coefficient symbolic: each member's share verifies under its public share, all members derive the group key of the summed dealer secrets, and every threshold subset in every arrival order and every map iteration order recovers the one signature that verifies under the group key.",
  "note": "Trusted: gosym and its models, z3, and the symbolic prime-order algebra standing in for the bn256 curve (validated on sampled paths against the real pairing library). Member ids are concrete tables, group sizes 3..7 (9 for subsets): larger groups and symbolic ids are outside.",
 },
 "C15": {
  "text": "Bounded symbolic model checking of the real round1.Update / groupSignGenerator / round2.checkSignature over the symbolic pairing-group algebra: for every sequence of verify messages within the bound, from members and non-members, honest and of seven Byzantine kinds (signature over a different symbolic hash, another member's share, foreign bytes, for the block share and for the beacon share), every share that enters a recovery set is its sender's valid share for this block's hash / the previous beacon value, the sets hold members only, the recovered signatures verify under the group key once the threshold is reached, and one faulty sender cannot stop finalisation.",
  "note": "Trusted: gosym and its models, z3, the symbolic prime-order algebra for bn256 (validated on sampled paths against the real pairing library). One genuine defect found and fixed (share verified against the sender-chosen data hash). Message sequences of 2 (thorough 3), groups of 3 and 5.",
 },
 "C16": {
  "text": "Bounded symbolic model checking of the parts of the VRF path that are integer/byte computations: (a) header transport - for every 80-byte proof, the big-integer prove value (leading zeros dropped) padded back by the real tryZeroPadding copies is the original proof, and padding never panics for any length; (b) qualification - through the real validateProve/calQn (big.Rat + float64 modelled as reals with an interval rounding model), for every 256-bit lottery value and each enumerated stake/working/height combination there is no panic and an accepted proof has 1 <= qn <= MaxQN.",
  "note": "Trusted: gosym and its models, z3, interval model of float64 rounding. The elliptic-curve clauses of the property (completeness, mutation soundness, unique lottery output) are NOT decided: edwards25519 arithmetic and SHA-512 on symbolic input are outside the encoding's reach. One genuine defect found and fixed (qn = MaxQN+1 for lottery values in the top sliver).",
 },
 "C19": {
  "text": "Bounded symbolic model checking of the real groupChain (AddGroup/save/remove/lookups and the restart loading sequence) over an in-memory store: for every history of up to 3 (thorough 5) add / bad-add / duplicate / remove-last / restart operations the last group is linked to genesis, Count equals the list length, the height index returns exactly the listed groups and nothing at or above the count, and every group is retrievable by id.",
  "note": "Trusted: gosym and its models (encoding/json by contract), z3. Mid-operation crash points are outside (the property quantifies restarts after operations).",
 },
 "C20": {
  "text": "Bounded symbolic model checking of the real MinerManager/RefundManager on a real AccountDB: for one apply / add-stake / refund (arbitrary uint64 amount) / double-refund operation from each small registry pre-state, lookup by id, by id+kind and by account agree, an account controls at most one miner, stake = applied + added - refunded, locked + scheduled + liquid tokens are constant, and a rejected operation changes nothing.",
  "note": "Trusted: gosym and its models (encoding/json by contract, LevelDB cache as a map), z3. Per-operation lemma; histories by induction. Amounts other than the refund amount are enumerated choices.",
 },
 "C01": {
  "text": "Bounded symbolic model checking with Go map iteration order as a symbolic variable: the real ChangeAssets and the real refund payout are executed twice on equal states under independent arbitrary map orders and must agree on status, result text, balances and state root; Transactions.Less (the sort key of block execution) is shown asymmetric and transitive on all symbolic triples with distinct hashes.",
  "note": "Trusted: gosym and its models, z3. One genuine order dependence (sender among its own targets) is a listed known finding. Amounts are enumerated; whole-block execution, goroutine timing and process-local caches are outside.",
 },
 "C06": {
  "text": "Bounded exploration by the symbolic interpreter of the real transferBalance / ChangeAssets / ProcessFee and of EVM value transfers (CALL, CREATE, SELFDESTRUCT incl. to self, failing and succeeding frames) on a real AccountDB: the sum of the balances of all accounts involved never increases, decreases only for self-destruct-to-self, and no balance is negative, for every combination of the enumerated amount strings, aliasing patterns and frame endings.",
  "note": "Trusted: gosym and its models. All inputs are enumerated choices (no symbolic amount could be decided: balances live in the state as minimal byte strings and are re-parsed through decimal/big.Float on every access), so this check is an exhaustive enumeration of a small finite space executed on the real code, not a solver argument over all amounts.",
 },
}
PENDING = "check not built yet in this session (planned, see DESIGN.md section 5)"
NA = {
 "C14": "curve/pairing algebra over a 254-bit prime field: non-linear modular arithmetic through thousands of field multiplications is beyond SMT reach; replacing bn256 by its algebra would assume the property (DESIGN.md section 6)",
}
for i in range(1, 21):
    pid = "C%02d" % i
    if pid not in CLAIMED and pid not in NA:
        NA[pid] = PENDING
