#!/bin/bash
set -e
cd "$(dirname "$0")"
export GOFLAGS=-mod=mod GOPROXY=off GOSUMDB=off GOTOOLCHAIN=local
mkdir -p bin evidence out
(cd gosym && go build -o ../bin/gosym .)
echo "gosym built"
