#!/bin/bash
# usage: seedtest.sh <property> <patch.diff> [extra gosym flags]  -- applies a seeded change to /repo, runs the quick check, reverts
ID="$1"; PATCH="$2"; shift; shift
cd /repo || exit 2
if git apply --check "$PATCH" 2>/dev/null; then git apply "$PATCH"; else
  # the repository has moved on (fix: commits) since the seed was written: apply with fuzz
  patch -p1 --fuzz=3 --no-backup-if-mismatch -s < "$PATCH" || { echo "patch does not apply"; git checkout -- .; exit 2; }
  echo "(applied with fuzz)"
fi
cd /verif && ./check.sh "$ID" quick "$@" 2>&1 | grep -E "^(SUMMARY|VIOLATION|KNOWN|ENCODER|TRANSLATOR|INCONCLUSIVE|  violated)" | cut -c1-300
rc=${PIPESTATUS[0]}
git -C /repo checkout -- . 
# the evidence file was rewritten from the patched tree: put the committed one (unchanged tree) back
git -C /verif checkout -- "evidence/$ID.json" 2>/dev/null
echo "exit=$rc"
