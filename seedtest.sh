#!/bin/bash
# usage: seedtest.sh <property> <patch.diff> [extra gosym flags]  -- applies a seeded change to /repo, runs the quick check, reverts
ID="$1"; PATCH="$2"; shift; shift
cd /repo || exit 2
git apply --check "$PATCH" || { echo "patch does not apply"; exit 2; }
git apply "$PATCH"
cd /verif && ./check.sh "$ID" quick "$@" 2>&1 | grep -E "^(SUMMARY|VIOLATION|KNOWN|ENCODER|TRANSLATOR|INCONCLUSIVE|  violated)" | cut -c1-300
rc=${PIPESTATUS[0]}
git -C /repo checkout -- . 
echo "exit=$rc"
