package main

// math/big.Int as an SMT Int-sorted payload.

import (
	"fmt"
	"go/types"
	"math/big"

	"golang.org/x/tools/go/ssa"
)

var bigIntType types.Type // set by loader (math/big.Int named type) if available

func (in *Interp) bigTermV(v Value) *Term {
	bv, ok := v.(BigVal)
	if !ok {
		panic(fmt.Sprintf("expected big.Int payload, got %T", v))
	}
	if bv.t == nil {
		return in.tt.IntI(0)
	}
	return bv.t
}

func (in *Interp) bigTerm(p *Ptr) *Term {
	if IsNilPtr(p) {
		in.goPanic("runtime error: invalid memory address or nil pointer dereference (nil *big.Int)")
	}
	return in.bigTermV(walk(p.obj.v, p.path))
}

func (in *Interp) setBig(p *Ptr, t *Term) *Ptr {
	if IsNilPtr(p) {
		in.goPanic("runtime error: invalid memory address or nil pointer dereference (nil *big.Int)")
	}
	in.store(p, BigVal{t})
	return p
}

func (in *Interp) newBig(t *Term) *Ptr {
	return &Ptr{obj: in.newObj(bigIntType, BigVal{t}, "big")}
}

func pow2(n int) *big.Int { return new(big.Int).Lsh(big.NewInt(1), uint(n)) }

func (in *Interp) signedToInt(x *Term) *Term {
	if x.IsConst() {
		return in.tt.Int(x.ConstSigned())
	}
	n := in.tt.BV2Nat(x)
	neg := in.tt.Cmp(OSlt, x, in.zeroOf(x))
	return in.tt.Ite(neg, in.tt.IBin(OISub, n, in.tt.Int(pow2(x.sort.W))), n)
}

func (in *Interp) iLt0(x *Term) *Term { return in.tt.ICmp(OILt, x, in.tt.IntI(0)) }

// truncated division (Go Quo/Rem)
func (in *Interp) tdiv(x, y *Term) (q, r *Term) {
	tt := in.tt
	if x.IsConst() && y.IsConst() {
		qq, rr := new(big.Int).QuoRem(x.big, y.big, new(big.Int))
		return tt.Int(qq), tt.Int(rr)
	}
	ax, ay := tt.IAbs(x), tt.IAbs(y)
	q0 := tt.IBin(OIDiv, ax, ay)
	r0 := tt.IBin(OIMod, ax, ay)
	xneg, yneg := in.iLt0(x), in.iLt0(y)
	qneg := tt.Not(tt.Eq(xneg, yneg))
	q = tt.Ite(qneg, tt.INeg(q0), q0)
	r = tt.Ite(xneg, tt.INeg(r0), r0)
	return
}

func (in *Interp) bigDivCheck(y *Term) {
	if in.branch(in.tt.Eq(y, in.tt.IntI(0))) {
		in.goPanic("division by zero")
	}
}

// cmpTerm returns -1/0/1 as BV64
func (in *Interp) cmpTerm(x, y *Term) *Term {
	tt := in.tt
	return tt.Ite(tt.ICmp(OILt, x, y), in.mkInt(-1), tt.Ite(tt.Eq(x, y), in.mkInt(0), in.mkInt(1)))
}

// byteLen decides (forking) the minimal byte length of |v|.
func (in *Interp) bigByteLen(av *Term) int {
	if av.IsConst() {
		return (av.big.BitLen() + 7) / 8
	}
	for L := 0; L <= in.opts.MaxBigBytes; L++ {
		if in.branch(in.tt.ICmp(OILt, av, in.tt.Int(pow2(8*L)))) {
			return L
		}
	}
	panic(boundExceeded{"big.Int byte length"})
}

func (in *Interp) bigToBytes(av *Term, n int) []*Term {
	bs := make([]*Term, n)
	if n == 0 {
		return bs
	}
	bv := in.tt.Int2BV(8*n, av)
	for i := 0; i < n; i++ {
		hi := 8*(n-i) - 1
		bs[i] = in.tt.Extract(hi, hi-7, bv)
	}
	return bs
}

func (in *Interp) bytesToInt(bs []*Term) *Term {
	if len(bs) == 0 {
		return in.tt.IntI(0)
	}
	cat := bs[0]
	for _, b := range bs[1:] {
		cat = in.tt.Concat(cat, b)
	}
	return in.tt.BV2Nat(cat)
}

func (in *Interp) concreteUint(v Value, what string) int {
	t := v.(*Term)
	if t.IsConst() {
		return int(t.cv)
	}
	return int(in.decideValue(t, what))
}

func init() {
	bi := func(n string, h intrinsic) { reg("(*math/big.Int)."+n, h) }
	type I = *Interp
	bin := func(f func(in I, x, y *Term) *Term) intrinsic {
		return func(in *Interp, fr *frame, a []Value, _ *ssa.CallCommon) Value {
			x, y := in.bigTerm(a[1].(*Ptr)), in.bigTerm(a[2].(*Ptr))
			return in.setBig(a[0].(*Ptr), f(in, x, y))
		}
	}
	reg("math/big.NewInt", func(in *Interp, fr *frame, a []Value, _ *ssa.CallCommon) Value {
		return in.newBig(in.signedToInt(a[0].(*Term)))
	})
	bi("Add", bin(func(in I, x, y *Term) *Term { return in.tt.IBin(OIAdd, x, y) }))
	bi("Sub", bin(func(in I, x, y *Term) *Term { return in.tt.IBin(OISub, x, y) }))
	bi("Mul", bin(func(in I, x, y *Term) *Term { return in.tt.IBin(OIMul, x, y) }))
	bi("Quo", bin(func(in I, x, y *Term) *Term { in.bigDivCheck(y); q, _ := in.tdiv(x, y); return q }))
	bi("Rem", bin(func(in I, x, y *Term) *Term { in.bigDivCheck(y); _, r := in.tdiv(x, y); return r }))
	bi("Div", bin(func(in I, x, y *Term) *Term { in.bigDivCheck(y); return in.tt.IBin(OIDiv, x, y) }))
	bi("Mod", bin(func(in I, x, y *Term) *Term {
		in.bigDivCheck(y)
		if y.op == OConst && y.ConstBig().Sign() > 0 {
			x = in.modNormalize(x, y.ConstBig())
		}
		return in.tt.IBin(OIMod, x, y)
	}))
	bi("QuoRem", func(in *Interp, fr *frame, a []Value, _ *ssa.CallCommon) Value {
		x, y := in.bigTerm(a[1].(*Ptr)), in.bigTerm(a[2].(*Ptr))
		in.bigDivCheck(y)
		q, r := in.tdiv(x, y)
		in.setBig(a[3].(*Ptr), r)
		in.setBig(a[0].(*Ptr), q)
		return Tuple{a[0], a[3]}
	})
	bi("DivMod", func(in *Interp, fr *frame, a []Value, _ *ssa.CallCommon) Value {
		x, y := in.bigTerm(a[1].(*Ptr)), in.bigTerm(a[2].(*Ptr))
		in.bigDivCheck(y)
		in.setBig(a[3].(*Ptr), in.tt.IBin(OIMod, x, y))
		in.setBig(a[0].(*Ptr), in.tt.IBin(OIDiv, x, y))
		return Tuple{a[0], a[3]}
	})
	bi("Neg", func(in *Interp, fr *frame, a []Value, _ *ssa.CallCommon) Value {
		return in.setBig(a[0].(*Ptr), in.tt.INeg(in.bigTerm(a[1].(*Ptr))))
	})
	bi("Abs", func(in *Interp, fr *frame, a []Value, _ *ssa.CallCommon) Value {
		return in.setBig(a[0].(*Ptr), in.tt.IAbs(in.bigTerm(a[1].(*Ptr))))
	})
	bi("Set", func(in *Interp, fr *frame, a []Value, _ *ssa.CallCommon) Value {
		return in.setBig(a[0].(*Ptr), in.bigTerm(a[1].(*Ptr)))
	})
	bi("SetInt64", func(in *Interp, fr *frame, a []Value, _ *ssa.CallCommon) Value {
		return in.setBig(a[0].(*Ptr), in.signedToInt(a[1].(*Term)))
	})
	bi("SetUint64", func(in *Interp, fr *frame, a []Value, _ *ssa.CallCommon) Value {
		return in.setBig(a[0].(*Ptr), in.tt.BV2Nat(a[1].(*Term)))
	})
	bi("SetBytes", func(in *Interp, fr *frame, a []Value, _ *ssa.CallCommon) Value {
		return in.setBig(a[0].(*Ptr), in.bytesToInt(in.sliceTerms(a[1].(Slice))))
	})
	bi("Bytes", func(in *Interp, fr *frame, a []Value, _ *ssa.CallCommon) Value {
		av := in.tt.IAbs(in.bigTerm(a[0].(*Ptr)))
		n := in.bigByteLen(av)
		return in.mkByteSlice(in.bigToBytes(av, n))
	})
	bi("FillBytes", func(in *Interp, fr *frame, a []Value, _ *ssa.CallCommon) Value {
		av := in.tt.IAbs(in.bigTerm(a[0].(*Ptr)))
		buf := a[1].(Slice)
		if in.branch(in.tt.Not(in.tt.ICmp(OILt, av, in.tt.Int(pow2(8*buf.ln))))) {
			in.goPanic("math/big: buffer too small to fit value")
		}
		bs := in.bigToBytes(av, buf.ln)
		for i, b := range bs {
			in.store((&Ptr{obj: buf.arr}).sub(buf.off+i), b)
		}
		return buf
	})
	bi("Cmp", func(in *Interp, fr *frame, a []Value, _ *ssa.CallCommon) Value {
		return in.cmpTerm(in.bigTerm(a[0].(*Ptr)), in.bigTerm(a[1].(*Ptr)))
	})
	bi("CmpAbs", func(in *Interp, fr *frame, a []Value, _ *ssa.CallCommon) Value {
		return in.cmpTerm(in.tt.IAbs(in.bigTerm(a[0].(*Ptr))), in.tt.IAbs(in.bigTerm(a[1].(*Ptr))))
	})
	bi("Sign", func(in *Interp, fr *frame, a []Value, _ *ssa.CallCommon) Value {
		return in.cmpTerm(in.bigTerm(a[0].(*Ptr)), in.tt.IntI(0))
	})
	bi("IsUint64", func(in *Interp, fr *frame, a []Value, _ *ssa.CallCommon) Value {
		x := in.bigTerm(a[0].(*Ptr))
		return in.tt.And(in.tt.ICmp(OILe, in.tt.IntI(0), x), in.tt.ICmp(OILt, x, in.tt.Int(pow2(64))))
	})
	bi("IsInt64", func(in *Interp, fr *frame, a []Value, _ *ssa.CallCommon) Value {
		x := in.bigTerm(a[0].(*Ptr))
		return in.tt.And(in.tt.ICmp(OILe, in.tt.Int(new(big.Int).Neg(pow2(63))), x), in.tt.ICmp(OILt, x, in.tt.Int(pow2(63))))
	})
	bi("Uint64", func(in *Interp, fr *frame, a []Value, _ *ssa.CallCommon) Value {
		return in.tt.Int2BV(64, in.tt.IAbs(in.bigTerm(a[0].(*Ptr))))
	})
	bi("Int64", func(in *Interp, fr *frame, a []Value, _ *ssa.CallCommon) Value {
		x := in.bigTerm(a[0].(*Ptr))
		lo := in.tt.Int2BV(64, in.tt.IAbs(x))
		return in.tt.Ite(in.iLt0(x), in.tt.BVNeg(lo), lo)
	})
	bi("BitLen", func(in *Interp, fr *frame, a []Value, _ *ssa.CallCommon) Value {
		av := in.tt.IAbs(in.bigTerm(a[0].(*Ptr)))
		if av.IsConst() {
			return in.mkInt(int64(av.big.BitLen()))
		}
		// find an upper bound by doubling, then an ite chain
		k := 64
		for ; k <= 8*in.opts.MaxBigBytes; k *= 2 {
			if in.branch(in.tt.ICmp(OILt, av, in.tt.Int(pow2(k)))) {
				break
			}
		}
		if k > 8*in.opts.MaxBigBytes {
			panic(boundExceeded{"big.Int BitLen"})
		}
		r := in.mkInt(int64(k))
		for i := k - 1; i >= 0; i-- {
			r = in.tt.Ite(in.tt.ICmp(OILt, av, in.tt.Int(pow2(i))), in.mkInt(int64(i)), r)
		}
		return r
	})
	bi("Lsh", func(in *Interp, fr *frame, a []Value, _ *ssa.CallCommon) Value {
		n := in.concreteUint(a[2], "big.Lsh count")
		return in.setBig(a[0].(*Ptr), in.tt.IBin(OIMul, in.bigTerm(a[1].(*Ptr)), in.tt.Int(pow2(n))))
	})
	bi("Rsh", func(in *Interp, fr *frame, a []Value, _ *ssa.CallCommon) Value {
		n := in.concreteUint(a[2], "big.Rsh count")
		return in.setBig(a[0].(*Ptr), in.tt.IBin(OIDiv, in.bigTerm(a[1].(*Ptr)), in.tt.Int(pow2(n))))
	})
	bi("Exp", func(in *Interp, fr *frame, a []Value, _ *ssa.CallCommon) Value {
		x, y := in.bigTerm(a[1].(*Ptr)), in.bigTerm(a[2].(*Ptr))
		var m *Term
		if mp := a[3].(*Ptr); !IsNilPtr(mp) {
			m = in.bigTerm(mp)
		}
		if !y.IsConst() || (y.big.BitLen() > 12 && !x.IsConst()) {
			// arbitrary result: an uninterpreted function of the operands
			mm := in.tt.IntI(0)
			if m != nil {
				mm = m
			}
			in.stubsUsed["big.Int.Exp with symbolic operands: uninterpreted function"]++
			return in.setBig(a[0].(*Ptr), in.tt.App("BIGEXP", IntSort, x, y, mm))
		}
		useMod := false
		if m != nil {
			if in.branch(in.tt.Not(in.tt.Eq(m, in.tt.IntI(0)))) {
				useMod = true
			}
		}
		if y.big.Sign() <= 0 {
			// x**0 = 1 (y<0 with m: inverse; unsupported)
			if y.big.Sign() < 0 && useMod {
				panic(unsupported{"big.Int.Exp negative exponent with modulus"})
			}
			r := in.tt.IntI(1)
			if useMod {
				r = in.tt.IBin(OIMod, r, in.tt.IAbs(m))
			}
			return in.setBig(a[0].(*Ptr), r)
		}
		if y.big.BitLen() > 12 && !x.IsConst() {
			panic(unsupported{"big.Int.Exp with large exponent on symbolic base"})
		}
		if x.IsConst() && (m == nil || m.IsConst()) {
			var mm *big.Int
			if useMod {
				mm = m.big
			}
			return in.setBig(a[0].(*Ptr), in.tt.Int(new(big.Int).Exp(x.big, y.big, mm)))
		}
		r := in.tt.IntI(1)
		e := int(y.big.Int64())
		for i := 0; i < e; i++ {
			r = in.tt.IBin(OIMul, r, x)
		}
		if useMod {
			r = in.tt.IBin(OIMod, r, in.tt.IAbs(m))
		}
		return in.setBig(a[0].(*Ptr), r)
	})
	bi("ModInverse", func(in *Interp, fr *frame, a []Value, _ *ssa.CallCommon) Value {
		g, n := in.bigTerm(a[1].(*Ptr)), in.bigTerm(a[2].(*Ptr))
		if g.IsConst() && n.IsConst() {
			r := new(big.Int).ModInverse(g.big, n.big)
			if r == nil {
				return (*Ptr)(nil)
			}
			return in.setBig(a[0].(*Ptr), in.tt.Int(r))
		}
		panic(unsupported{"ModInverse on symbolic operands"})
	})
	bi("String", func(in *Interp, fr *frame, a []Value, _ *ssa.CallCommon) Value {
		p := a[0].(*Ptr)
		if IsNilPtr(p) {
			return "<nil>"
		}
		return in.bigDecString(in.bigTerm(p))
	})
	bi("Text", func(in *Interp, fr *frame, a []Value, _ *ssa.CallCommon) Value {
		p := a[0].(*Ptr)
		if IsNilPtr(p) {
			return "<nil>"
		}
		x := in.bigTerm(p)
		base := in.argInt(a[1])
		if x.IsConst() {
			return x.big.Text(base)
		}
		if base == 10 {
			return in.bigDecString(x)
		}
		panic(unsupported{"big.Int.Text of symbolic value in base != 10"})
	})
	bi("SetString", func(in *Interp, fr *frame, a []Value, _ *ssa.CallCommon) Value {
		base := in.argInt(a[2])
		if s, ok := isConcreteStr(a[1]); ok {
			v, ok := new(big.Int).SetString(s, base)
			if !ok {
				return Tuple{(*Ptr)(nil), in.tt.False}
			}
			return Tuple{in.setBig(a[0].(*Ptr), in.tt.Int(v)), in.tt.True}
		}
		if base != 10 {
			panic(unsupported{"big.Int.SetString symbolic with base != 10"})
		}
		v, ok := in.parseDecSym(in.strBytes(a[1]))
		if !ok {
			return Tuple{(*Ptr)(nil), in.tt.False}
		}
		return Tuple{in.setBig(a[0].(*Ptr), v), in.tt.True}
	})
	for _, n := range []string{"And", "Or", "Xor"} {
		n := n
		bi(n, func(in *Interp, fr *frame, a []Value, _ *ssa.CallCommon) Value {
			x, y := in.bigTerm(a[1].(*Ptr)), in.bigTerm(a[2].(*Ptr))
			if x.IsConst() && y.IsConst() {
				r := new(big.Int)
				switch n {
				case "And":
					r.And(x.big, y.big)
				case "Or":
					r.Or(x.big, y.big)
				default:
					r.Xor(x.big, y.big)
				}
				return in.setBig(a[0].(*Ptr), in.tt.Int(r))
			}
			// non-negative operands below 2^w: go through bit-vectors
			w := in.opts.BigBitopWidth
			lim := in.tt.Int(pow2(w))
			ok := in.tt.And(in.tt.And(in.tt.ICmp(OILe, in.tt.IntI(0), x), in.tt.ICmp(OILt, x, lim)),
				in.tt.And(in.tt.ICmp(OILe, in.tt.IntI(0), y), in.tt.ICmp(OILt, y, lim)))
			if !in.branch(ok) {
				panic(unsupported{"big.Int bit operation on negative or very large symbolic operands"})
			}
			bx, by := in.tt.Int2BV(w, x), in.tt.Int2BV(w, y)
			op := map[string]Op{"And": OAnd, "Or": OOr, "Xor": OXor}[n]
			return in.setBig(a[0].(*Ptr), in.tt.BV2Nat(in.tt.BVBin(op, bx, by)))
		})
	}
	bi("Bit", func(in *Interp, fr *frame, a []Value, _ *ssa.CallCommon) Value {
		x := in.bigTerm(a[0].(*Ptr))
		i := in.argInt(a[1])
		if x.IsConst() {
			return in.tt.BV(64, uint64(x.big.Bit(i)))
		}
		// floor(x / 2^i) mod 2 (two's complement semantics for negatives, as Go)
		b := in.tt.IBin(OIMod, in.tt.IBin(OIDiv, x, in.tt.Int(pow2(i))), in.tt.IntI(2))
		return in.tt.Ite(in.tt.Eq(b, in.tt.IntI(1)), in.mkU64(1), in.mkU64(0))
	})
	bi("Bits", func(in *Interp, fr *frame, a []Value, _ *ssa.CallCommon) Value {
		x := in.bigTerm(a[0].(*Ptr))
		if !x.IsConst() {
			panic(unsupported{"big.Int.Bits of symbolic value"})
		}
		ws := x.big.Bits()
		es := make([]Value, len(ws))
		for i, w := range ws {
			es[i] = in.mkU64(uint64(w))
		}
		return in.mkSlice(types.Typ[types.Uint], es)
	})
	bi("SetBits", func(in *Interp, fr *frame, a []Value, _ *ssa.CallCommon) Value {
		ws := in.sliceTerms(a[1].(Slice))
		r := in.tt.IntI(0)
		for i := len(ws) - 1; i >= 0; i-- {
			r = in.tt.IBin(OIAdd, in.tt.IBin(OIMul, r, in.tt.Int(pow2(64))), in.tt.BV2Nat(ws[i]))
		}
		return in.setBig(a[0].(*Ptr), r)
	})
	bi("ProbablyPrime", func(in *Interp, fr *frame, a []Value, _ *ssa.CallCommon) Value {
		x := in.bigTerm(a[0].(*Ptr))
		if !x.IsConst() {
			panic(unsupported{"ProbablyPrime symbolic"})
		}
		return in.mkBool(x.big.ProbablyPrime(in.argInt(a[1])))
	})
	bi("GCD", func(in *Interp, fr *frame, a []Value, _ *ssa.CallCommon) Value {
		x, y := in.bigTerm(a[3].(*Ptr)), in.bigTerm(a[4].(*Ptr))
		if !x.IsConst() || !y.IsConst() {
			panic(unsupported{"GCD symbolic"})
		}
		xx, yy := new(big.Int), new(big.Int)
		g := new(big.Int).GCD(xx, yy, x.big, y.big)
		if p := a[1].(*Ptr); !IsNilPtr(p) {
			in.setBig(p, in.tt.Int(xx))
		}
		if p := a[2].(*Ptr); !IsNilPtr(p) {
			in.setBig(p, in.tt.Int(yy))
		}
		return in.setBig(a[0].(*Ptr), in.tt.Int(g))
	})
	bi("Sqrt", func(in *Interp, fr *frame, a []Value, _ *ssa.CallCommon) Value {
		x := in.bigTerm(a[1].(*Ptr))
		if !x.IsConst() {
			panic(unsupported{"Sqrt symbolic"})
		}
		return in.setBig(a[0].(*Ptr), in.tt.Int(new(big.Int).Sqrt(x.big)))
	})
	bi("Format", zeroRes)
}

// bigDecString renders a symbolic integer in decimal. The digit count is decided by forking
// on the magnitude (bounded by MaxDecDigits).
func (in *Interp) bigDecString(x *Term) Value {
	if x.IsConst() {
		return x.big.String()
	}
	tt := in.tt
	neg := in.branch(in.iLt0(x))
	ax := x
	if neg {
		ax = tt.INeg(x)
	}
	ten := big.NewInt(10)
	n := 1
	for ; n <= in.opts.MaxDecDigits; n++ {
		lim := new(big.Int).Exp(ten, big.NewInt(int64(n)), nil)
		if in.branch(tt.ICmp(OILt, ax, tt.Int(lim))) {
			break
		}
	}
	if n > in.opts.MaxDecDigits {
		panic(boundExceeded{"decimal digits of big.Int"})
	}
	ds := in.decDigits(ax, n)
	if neg {
		ds = append([]*Term{in.mkByte('-')}, ds...)
	}
	return in.mkStr(ds)
}

// decDigits returns the n decimal digit characters (most significant first) of ax < 10^n.
func (in *Interp) decDigits(ax *Term, n int) []*Term {
	tt := in.tt
	ds := make([]*Term, n)
	ten := big.NewInt(10)
	for i := 0; i < n; i++ {
		p := new(big.Int).Exp(ten, big.NewInt(int64(n-1-i)), nil)
		d := tt.IBin(OIMod, tt.IBin(OIDiv, ax, tt.Int(p)), tt.IntI(10))
		ds[i] = tt.Int2BV(8, tt.IBin(OIAdd, tt.IntI(48), d)) // integer-encoded digit character
	}
	return ds
}

// digitOf returns the integer value of a decimal digit character and whether the character is
// known to be a digit (integer-encoded digit strings from symx.Digits).
func (in *Interp) digitOf(b *Term) (*Term, bool) {
	if b.op == OInt2BV {
		x := b.args[0]
		if x.op == OIAdd && x.args[0].op == OConst && x.args[0].big.IsInt64() && x.args[0].big.Int64() == 48 {
			if u := in.tt.ubound(x.args[1]); u != nil && u.Cmp(big.NewInt(9)) <= 0 {
				return x.args[1], true
			}
		}
	}
	return in.tt.BV2Nat(in.tt.BVBin(OSub, b, in.mkByte('0'))), false
}

// digitPos recognises d = (ax div 10^p) mod 10 and returns (ax, p).
func digitPos(d *Term) (*Term, int, bool) {
	if d.op != OIMod || d.args[1].op != OConst || !d.args[1].big.IsInt64() || d.args[1].big.Int64() != 10 {
		return nil, 0, false
	}
	x := d.args[0]
	if x.op == OIDiv && x.args[1].op == OConst {
		// power of ten?
		p := 0
		v := new(big.Int).Set(x.args[1].big)
		ten := big.NewInt(10)
		r := new(big.Int)
		for v.Cmp(big.NewInt(1)) > 0 {
			v.QuoRem(v, ten, r)
			if r.Sign() != 0 {
				return nil, 0, false
			}
			p++
		}
		return x.args[0], p, true
	}
	return x, 0, true
}

// composeDigits returns sum(ds[i] * 10^(n-1-i)), collapsing runs of consecutive decimal digits
// of one integer term into a single div/mod expression.
func (in *Interp) composeDigits(ds []*Term) *Term {
	tt := in.tt
	n := len(ds)
	total := tt.IntI(0)
	pow10 := func(k int) *Term { return tt.Int(new(big.Int).Exp(big.NewInt(10), big.NewInt(int64(k)), nil)) }
	i := 0
	for i < n {
		ax, p, ok := digitPos(ds[i])
		if !ok {
			total = tt.IBin(OIAdd, total, tt.IBin(OIMul, ds[i], pow10(n-1-i)))
			i++
			continue
		}
		j := i + 1
		q := p
		for j < n {
			ax2, p2, ok2 := digitPos(ds[j])
			if !ok2 || ax2 != ax || p2 != q-1 {
				break
			}
			q = p2
			j++
		}
		// digits positions p..q of ax, count = p-q+1
		grp := tt.IBin(OIMod, tt.IBin(OIDiv, ax, pow10(q)), pow10(p-q+1))
		total = tt.IBin(OIAdd, total, tt.IBin(OIMul, grp, pow10(n-j)))
		i = j
	}
	return total
}

// parseDecSym parses [+-]?digits with symbolic characters; forks on sign/validity.
func (in *Interp) parseDecSym(bs []*Term) (*Term, bool) {
	tt := in.tt
	if len(bs) == 0 {
		return nil, false
	}
	neg := false
	if in.branch(tt.Eq(bs[0], in.mkByte('-'))) {
		neg = true
		bs = bs[1:]
	} else if in.branch(tt.Eq(bs[0], in.mkByte('+'))) {
		bs = bs[1:]
	}
	if len(bs) == 0 {
		return nil, false
	}
	valid := tt.True
	var ds []*Term
	for _, b := range bs {
		d, known := in.digitOf(b)
		if !known {
			isd := tt.And(tt.Cmp(OUle, in.mkByte('0'), b), tt.Cmp(OUle, b, in.mkByte('9')))
			valid = tt.And(valid, isd)
		}
		ds = append(ds, d)
	}
	v := in.composeDigits(ds)
	// note: '_' separators are only legal with base 0
	if !in.branch(valid) {
		return nil, false
	}
	if neg {
		v = tt.INeg(v)
	}
	return v, true
}
