package main

// secp256k1 ECDSA (both cgo wrappers: common/secp256k1 and eth_crypto/secp256k1) as an ideal
// signature scheme. The C library cannot be executed symbolically; what the properties above it
// need is: signing is a deterministic function of (key, message); recovery from (message,
// signature) returns the signer's key exactly for the signed message and some unrelated key (or
// an error) otherwise; a recovered key always verifies. Keys are concrete in the harnesses.
//   public key of secret d : (X, Y) = (sha256("X"||d), sha256("Y"||d)) with the top bit cleared
//     (an injective stand-in for d*G; IsOnCurve accepts these points and real curve points)
//   signature               : a 65-byte token naming (d, message)
//   foreign bytes as signature: recovery fails or yields the key of a fixed unrelated secret

import (
	"crypto/sha256"
	"fmt"
	"math/big"
	"strings"

	"golang.org/x/tools/go/ssa"
)

var secpPkgs = []string{"com.tuntun.rangers/node/src/common/secp256k1", "com.tuntun.rangers/node/src/eth_crypto/secp256k1"}

type secpSig struct {
	sk  []byte
	msg []*Term
}

func secpPoint(sk []byte) (x, y *big.Int) {
	d := make([]byte, 32)
	copy(d[32-len(sk):], sk)
	hx := sha256.Sum256(append([]byte("X"), d...))
	hy := sha256.Sum256(append([]byte("Y"), d...))
	hx[0] &= 0x7f
	hy[0] &= 0x7f
	return new(big.Int).SetBytes(hx[:]), new(big.Int).SetBytes(hy[:])
}

func (in *Interp) secpPub(sk []byte) []*Term {
	x, y := secpPoint(sk)
	if in.secpPts == nil {
		in.secpPts = map[string]bool{}
	}
	in.secpPts[x.String()+"|"+y.String()] = true
	out := []*Term{in.mkByte(4)}
	for _, b := range x.FillBytes(make([]byte, 32)) {
		out = append(out, in.mkByte(b))
	}
	for _, b := range y.FillBytes(make([]byte, 32)) {
		out = append(out, in.mkByte(b))
	}
	return out
}

func secpOther(sk []byte, tag string) []byte {
	h := sha256.Sum256(append([]byte(tag), sk...))
	return h[:]
}

func (in *Interp) termsToBytes(ts []*Term) ([]byte, bool) {
	out := make([]byte, len(ts))
	for i, t := range ts {
		if !t.IsConst() {
			return nil, false
		}
		out[i] = byte(t.cv)
	}
	return out, true
}

func (in *Interp) secpToken(sig []*Term) *secpSig {
	if len(sig) < 64 {
		return nil
	}
	b, ok := in.termsToBytes(sig[:64])
	if !ok || string(b[0:5]) != "\x00SIG!" || string(b[32:37]) != "\x00sig!" {
		return nil
	}
	id := int(b[5])<<24 | int(b[6])<<16 | int(b[7])<<8 | int(b[8])
	id2 := int(b[37])<<24 | int(b[38])<<16 | int(b[39])<<8 | int(b[40])
	if id != id2 || id < 1 || id > len(in.P.secpSigs) {
		return nil
	}
	for i := 9; i < 32; i++ {
		if b[i] != 0 || b[32+i] != 0 {
			return nil
		}
	}
	return in.P.secpSigs[id-1]
}

func (in *Interp) pkgGlobalValue(pkgPath, name string) Value {
	pkg := in.prog.ImportedPackage(pkgPath)
	if pkg == nil {
		panic(unsupported{"package not loaded: " + pkgPath})
	}
	g, ok := pkg.Members[name].(*ssa.Global)
	if !ok {
		panic(unsupported{"no global " + pkgPath + "." + name})
	}
	return walk(in.globalObj(g).v, nil)
}

func init() {
	for _, pkg := range secpPkgs {
		pkg := pkg
		vBase := byte(0)
		if strings.HasSuffix(pkg, "common/secp256k1") {
			vBase = 27
		}
		note := func(in *Interp) {
			in.stubsUsed["secp256k1 ECDSA as an ideal signature scheme (concrete keys)"]++
		}
		reg(pkg+".Sign", func(in *Interp, fr *frame, a []Value, _ *ssa.CallCommon) Value {
			note(in)
			msg := in.sliceTerms(a[0].(Slice))
			sk, ok := in.termsToBytes(in.sliceTerms(a[1].(Slice)))
			if !ok {
				panic(unsupported{"secp256k1.Sign with a symbolic secret key"})
			}
			for len(sk) > 1 && sk[0] == 0 {
				sk = sk[1:]
			}
			id := 0
			for i, s := range in.P.secpSigs {
				if string(s.sk) == string(sk) && canonKey(s.msg) == canonKey(msg) {
					id = i + 1
				}
			}
			if id == 0 {
				in.P.secpSigs = append(in.P.secpSigs, &secpSig{sk: sk, msg: msg})
				id = len(in.P.secpSigs)
			}
			b := make([]byte, 65)
			copy(b[0:], "\x00SIG!")
			copy(b[32:], "\x00sig!")
			for _, o := range []int{5, 37} {
				b[o], b[o+1], b[o+2], b[o+3] = byte(id>>24), byte(id>>16), byte(id>>8), byte(id)
			}
			b[64] = vBase
			ts := make([]*Term, 65)
			for i := range b {
				ts[i] = in.mkByte(b[i])
			}
			return Tuple{in.mkByteSlice(ts), Iface{}}
		})
		recoverKey := func(in *Interp, msg, sig []*Term) ([]*Term, bool) {
			if tok := in.secpToken(sig); tok != nil {
				c := in.bytesEqTerm(msg, tok.msg)
				if in.branch(c) {
					return in.secpPub(tok.sk), true
				}
				return in.secpPub(secpOther(tok.sk, "other message")), true
			}
			in.P.nondet = true
			if in.decideN(2, "secp256k1 recover from foreign signature") == 0 {
				return in.secpPub(secpOther(nil, "foreign signature")), true
			}
			return nil, false
		}
		reg(pkg+".RecoverPubkey", func(in *Interp, fr *frame, a []Value, _ *ssa.CallCommon) Value {
			note(in)
			msg, sig := in.sliceTerms(a[0].(Slice)), in.sliceTerms(a[1].(Slice))
			if len(msg) != 32 {
				return Tuple{Slice{}, in.pkgGlobalValue(pkg, "ErrInvalidMsgLen")}
			}
			if len(sig) != 65 {
				return Tuple{Slice{}, in.pkgGlobalValue(pkg, "ErrInvalidSignatureLen")}
			}
			v := sig[64]
			if vBase == 27 {
				// checkSignature rewrites V from 27/28 to 0/1 in place
				s := a[1].(Slice)
				if in.branch(in.tt.Cmp(OUlt, in.mkByte(26), v)) {
					v = in.tt.BVBin(OSub, v, in.mkByte(27))
					in.store(&Ptr{obj: s.arr, path: []int{s.off + 64}}, v)
				}
			}
			if in.branch(in.tt.Cmp(OUle, in.mkByte(4), v)) {
				return Tuple{Slice{}, in.pkgGlobalValue(pkg, "ErrInvalidRecoveryID")}
			}
			pub, ok := recoverKey(in, msg, sig)
			if !ok {
				return Tuple{Slice{}, in.pkgGlobalValue(pkg, "ErrRecoverFailed")}
			}
			return Tuple{in.mkByteSlice(pub), Iface{}}
		})
		reg(pkg+".VerifySignature", func(in *Interp, fr *frame, a []Value, _ *ssa.CallCommon) Value {
			note(in)
			pub, msg, sig := in.sliceTerms(a[0].(Slice)), in.sliceTerms(a[1].(Slice)), in.sliceTerms(a[2].(Slice))
			if len(sig) != 64 || len(msg) != 32 {
				return in.tt.False
			}
			if tok := in.secpToken(sig); tok != nil {
				same := in.bytesEqTerm(msg, tok.msg)
				return in.tt.Ite(same, in.bytesEqTerm(pub, in.secpPub(tok.sk)), in.bytesEqTerm(pub, in.secpPub(secpOther(tok.sk, "other message"))))
			}
			return in.bytesEqTerm(pub, in.secpPub(secpOther(nil, "foreign signature")))
		})
		mult := func(in *Interp, fr *frame, a []Value, _ *ssa.CallCommon) Value {
			note(in)
			k, ok := in.termsToBytes(in.sliceTerms(a[len(a)-1].(Slice)))
			if !ok {
				panic(unsupported{"secp256k1 scalar multiplication with a symbolic scalar"})
			}
			if len(a) == 4 {
				// ScalarMult(Bx, By, k): only the generator is supported
				recv := a[0].(*Ptr)
				gx := in.bigTerm(in.load(&Ptr{obj: recv.obj, path: append(append([]int{}, recv.path...), 3)}).(*Ptr)) // BitCurve.Gx
				if in.bigTerm(a[1].(*Ptr)) != gx {
					panic(unsupported{"secp256k1 ScalarMult on a point other than the generator"})
				}
			}
			for len(k) > 1 && k[0] == 0 {
				k = k[1:]
			}
			in.secpPub(k) // registers the point
			x, y := secpPoint(k)
			return Tuple{in.newBig(in.tt.Int(x)), in.newBig(in.tt.Int(y))}
		}
		reg("(*"+pkg+".BitCurve).ScalarBaseMult", mult)
		reg("(*"+pkg+".BitCurve).ScalarMult", mult)
		reg("(*"+pkg+".BitCurve).IsOnCurve", func(in *Interp, fr *frame, a []Value, _ *ssa.CallCommon) Value {
			x, y := in.bigTerm(a[1].(*Ptr)), in.bigTerm(a[2].(*Ptr))
			if x.op != OConst || y.op != OConst {
				panic(unsupported{"secp256k1 IsOnCurve on symbolic coordinates"})
			}
			if in.secpPts[x.ConstBig().String()+"|"+y.ConstBig().String()] {
				return in.tt.True
			}
			p, _ := new(big.Int).SetString("fffffffffffffffffffffffffffffffffffffffffffffffffffffffefffffc2f", 16)
			l := new(big.Int).Mul(y.ConstBig(), y.ConstBig())
			l.Mod(l, p)
			r := new(big.Int).Exp(x.ConstBig(), big.NewInt(3), p)
			r.Add(r, big.NewInt(7)).Mod(r, p)
			return in.mkBool(l.Cmp(r) == 0)
		})
	}
	_ = fmt.Sprint
}
