package main

// Check configuration, native replay, translator validation, known findings, evidence.

import (
	"bufio"
	"bytes"
	"crypto/sha256"
	"encoding/json"
	"fmt"
	"go/token"
	"os"
	"os/exec"
	"path/filepath"
	"sort"
	"strings"
	"time"

	"golang.org/x/tools/go/ssa"
	"golang.org/x/tools/go/ssa/ssautil"
)

type CheckConfig struct {
	PkgDirs             []string          `json:"pkg_dirs"`
	Tags                string            `json:"tags"`
	MaxPaths            int               `json:"max_paths"`
	BudgetQuick         int               `json:"budget_quick_s"` // per harness
	BudgetThorough      int               `json:"budget_thorough_s"`
	BudgetThoroughTotal int               `json:"budget_thorough_total_s"` // per harness
	Budgets             map[string]int    `json:"budgets"`
	Bounds              map[string]string `json:"bounds"`
	Assumptions         []string          `json:"assumptions"`
	Outside             []string          `json:"outside"`
	SkipInit            []string          `json:"skip_init"`
}

func (c *CheckConfig) budget(name string, thorough bool) int {
	if b, ok := c.Budgets[name]; ok {
		return b
	}
	if thorough {
		return c.BudgetThorough
	}
	return c.BudgetQuick
}

func loadCheckConfig(id string) (*CheckConfig, error) {
	b, err := os.ReadFile(filepath.Join(verifDir, "checks.json"))
	if err != nil {
		return nil, err
	}
	var all map[string]*CheckConfig
	if err := json.Unmarshal(b, &all); err != nil {
		return nil, err
	}
	c, ok := all[id]
	if !ok {
		return nil, fmt.Errorf("no config for %s", id)
	}
	if c.Tags == "" {
		c.Tags = "math_big_pure_go"
	}
	return c, nil
}

type KnownFinding struct {
	Property string `json:"property"`
	Harness  string `json:"harness"`
	Label    string `json:"label"`
	What     string `json:"what"`
	Status   string `json:"status"` // known | fixed
	Commit   string `json:"commit,omitempty"`
}

func loadKnown() []KnownFinding {
	b, err := os.ReadFile(filepath.Join(verifDir, "known_findings.json"))
	if err != nil {
		return nil
	}
	var k []KnownFinding
	json.Unmarshal(b, &k)
	return k
}

type caseJSON struct {
	Harness string            `json:"harness"`
	Inputs  map[string]string `json:"inputs"`
	Repeat  int               `json:"repeat,omitempty"`
}

type caseResult struct {
	Idx     int      `json:"idx"`
	Harness string   `json:"harness"`
	Outcome string   `json:"outcome"`
	Label   string   `json:"label"`
	Obs     []string `json:"obs"`
	Stack   string   `json:"stack"`
}

// nativeRun compiles the harnesses of pkgDir natively (overlay) and runs the cases.
func nativeRun(propID string, pkgDir string, pkgName string, harnessNames []string, files map[string]string, tags string, cases []caseJSON, thorough bool) ([]caseResult, error) {
	scratch, err := os.MkdirTemp("/var/tmp", "verif-replay-"+propID+"-")
	if err != nil {
		return nil, err
	}
	defer os.RemoveAll(scratch)
	// generated test file
	var sb strings.Builder
	fmt.Fprintf(&sb, "package %s\n\nimport (\n\t\"testing\"\n\tsymx \"%s\"\n)\n\n", pkgName, symxPath)
	fmt.Fprintf(&sb, "func TestVerifReplay(t *testing.T) {\n\tsymx.RunCases(map[string]func(){\n")
	for _, h := range harnessNames {
		fmt.Fprintf(&sb, "\t\t%q: %s,\n", h, h)
	}
	fmt.Fprintf(&sb, "\t})\n}\n")
	testFile := filepath.Join(scratch, "zz_verif_replay_test.go")
	if err := os.WriteFile(testFile, []byte(sb.String()), 0o644); err != nil {
		return nil, err
	}
	ov := map[string]map[string]string{"Replace": {}}
	for v, r := range files {
		ov["Replace"][v] = r
	}
	ov["Replace"][filepath.Join(repoDir, pkgDir, "zz_verif_replay_test.go")] = testFile
	// replay environment: utility.ntpOffset(true) loops until an NTP server answers; the sandbox
	// has no network, so the natively compiled replay uses a copy of ntp.go whose ntpOffset
	// returns 0 (the clock source is not the subject of any claimed property)
	if patched := patchNtp(scratch); patched != "" {
		ov["Replace"][filepath.Join(repoDir, "src/utility/ntp.go")] = patched
	}
	ovb, _ := json.Marshal(ov)
	ovFile := filepath.Join(scratch, "overlay.json")
	os.WriteFile(ovFile, ovb, 0o644)
	bin := filepath.Join(scratch, "replay.test")
	cmd := exec.Command("go", "test", "-c", "-o", bin, "-vet=off", "-overlay", ovFile, "-tags", tags, "./"+pkgDir)
	cmd.Dir = repoDir
	cmd.Env = append(os.Environ(), "GOFLAGS=-mod=mod", "GOPROXY=off", "GOSUMDB=off", "GOTOOLCHAIN=local")
	out, err := cmd.CombinedOutput()
	if err != nil {
		return nil, fmt.Errorf("native build failed: %v\n%s", err, out)
	}
	var res []caseResult
	startIdx := 0
	for startIdx < len(cases) {
		cb, _ := json.Marshal(cases[startIdx:])
		casesFile := filepath.Join(scratch, "cases.json")
		os.WriteFile(casesFile, cb, 0o644)
		outFile := filepath.Join(scratch, "out.jsonl")
		os.Remove(outFile)
		run := exec.Command("/bin/sh", "-c", "ulimit -v 12582912; exec "+bin+" -test.run '^TestVerifReplay$' -test.timeout 900s")
		run.Dir = scratch
		tier := "quick"
		if thorough {
			tier = "thorough"
		}
		run.Env = append(os.Environ(), "VERIF_CASES="+casesFile, "VERIF_OUT="+outFile, "VERIF_TIER="+tier)
		rout, rerr := run.CombinedOutput()
		f, err := os.Open(outFile)
		if err != nil {
			return nil, fmt.Errorf("native run produced no output: %v %v\n%s", err, rerr, tail(string(rout), 2000))
		}
		n := 0
		sc := bufio.NewScanner(f)
		sc.Buffer(make([]byte, 1<<20), 1<<24)
		for sc.Scan() {
			var r caseResult
			if json.Unmarshal(sc.Bytes(), &r) == nil {
				r.Idx += startIdx
				res = append(res, r)
				n++
			}
		}
		f.Close()
		if startIdx+n < len(cases) {
			// the process died (fatal error, os.Exit, out of memory) while running the next case
			k := startIdx + n
			res = append(res, caseResult{Idx: k, Harness: cases[k].Harness, Outcome: "panic", Label: "process died: " + tail(string(rout), 600)})
			startIdx = k + 1
		} else {
			break
		}
	}
	return res, nil
}

func patchNtp(scratch string) string {
	src, err := os.ReadFile(filepath.Join(repoDir, "src/utility/ntp.go"))
	if err != nil {
		return ""
	}
	text := string(src)
	head := "func ntpOffset(ensure bool) time.Duration {"
	i := strings.Index(text, head)
	if i < 0 {
		return ""
	}
	// matching closing brace
	depth := 0
	j := i + len(head) - 1
	for ; j < len(text); j++ {
		if text[j] == '{' {
			depth++
		} else if text[j] == '}' {
			depth--
			if depth == 0 {
				break
			}
		}
	}
	if j >= len(text) {
		return ""
	}
	out := text[:i] + head + "\n\treturn 0 // verif replay: no network in the sandbox\n}" + text[j+1:]
	// keep helper functions referenced so that the file still compiles
	out += "\nvar _ = queryNTP\n"
	f := filepath.Join(scratch, "ntp_patched.go")
	if os.WriteFile(f, []byte(out), 0o644) != nil {
		return ""
	}
	return f
}

func tail(s string, n int) string {
	if len(s) > n {
		return s[len(s)-n:]
	}
	return s
}

type evidence struct {
	PropertyID  string                 `json:"property_id"`
	Tier        string                 `json:"tier"`
	Seed        int64                  `json:"seed"`
	Level       string                 `json:"level"`
	Coverage    map[string]interface{} `json:"coverage"`
	Assumptions []string               `json:"assumptions"`
	WallS       float64                `json:"wall_s"`
	Violations  int                    `json:"violations"`
}

func srcHash(ld *Loaded, fnName string) string { return "" }

func finish(propID, tier string, cfg *CheckConfig, ld *Loaded, results []*HarnessResult, opts *Options, noreplay bool, loadErr string, wall time.Duration) int {
	known := loadKnown()
	isKnown := func(h, label string) *KnownFinding {
		for i := range known {
			k := &known[i]
			if k.Property == propID && k.Status == "known" && k.Harness == h && k.Label == label {
				return k
			}
		}
		return nil
	}
	outDir := filepath.Join(verifDir, "out", propID)
	os.MkdirAll(outDir, 0o755)

	// group by package
	byPkg := map[string][]*HarnessResult{}
	for _, r := range results {
		byPkg[r.pkgDir] = append(byPkg[r.pkgDir], r)
	}
	confirmed := 0
	knownHits := 0
	mismatches := 0
	validated := 0
	var violLines []string
	var notes []string
	for pkgDir, rs := range byPkg {
		var cases []caseJSON
		type ref struct {
			r    *HarnessResult
			v    *Violation
			s    *Sample
			kind string
			alt  map[string]string
		}
		var refs []ref
		var names []string
		for _, r := range rs {
			names = append(names, r.Name)
			var keys []string
			for k := range r.Violations {
				keys = append(keys, k)
			}
			sort.Strings(keys)
			for _, k := range keys {
				v := r.Violations[k]
				rep := 0
				if v.MapOrder {
					rep = 60 // the violation depends on Go's (randomised) map iteration order: retry natively
				}
				cases = append(cases, caseJSON{Harness: r.Name, Inputs: v.Inputs, Repeat: rep})
				refs = append(refs, ref{r: r, v: v, kind: "viol"})
				for _, alt := range v.Alt {
					cases = append(cases, caseJSON{Harness: r.Name, Inputs: alt})
					refs = append(refs, ref{r: r, v: v, kind: "viol", alt: alt})
				}
			}
			for i := range r.Samples {
				s := &r.Samples[i]
				cases = append(cases, caseJSON{Harness: r.Name, Inputs: s.Inputs})
				refs = append(refs, ref{r: r, s: s, kind: "sample"})
			}
		}
		if len(cases) == 0 || noreplay {
			if noreplay {
				for _, rf := range refs {
					if rf.kind == "viol" {
						notes = append(notes, fmt.Sprintf("UNREPLAYED candidate %s/%s", rf.r.Name, rf.v.Label))
					}
				}
			}
			continue
		}
		// all harness names of the package (the test file must reference existing funcs only)
		pkgName := ""
		for _, sp := range ld.spkgs {
			if sp != nil && strings.TrimPrefix(sp.Pkg.Path(), modPath+"/") == pkgDir {
				pkgName = sp.Pkg.Name()
			}
		}
		nres, err := nativeRun(propID, pkgDir, pkgName, names, ld.files, cfg.Tags, cases, opts.Thorough)
		if err != nil {
			fmt.Printf("INCONCLUSIVE property=%s native replay failed for %s: %v\n", propID, pkgDir, err)
			for _, rf := range refs {
				rf.r.Inconclusive["native replay failed"]++
			}
			continue
		}
		for i, rf := range refs {
			if i >= len(nres) {
				rf.r.Inconclusive["native replay: no result for case"]++
				continue
			}
			nr := nres[i]
			switch rf.kind {
			case "viol":
				if rf.v.confirmed {
					continue // an earlier model of this violation already reproduced
				}
				if rf.alt != nil {
					rf.v.Inputs = rf.alt
				}
				ok := false
				if strings.HasPrefix(rf.v.Label, "panic: ") {
					ok = nr.Outcome == "panic"
				} else if rf.v.Label == "allocation beyond limit" {
					ok = nr.Outcome == "allocfail" || nr.Outcome == "panic"
				} else {
					ok = nr.Outcome == "checkfail" && nr.Label == rf.v.Label
					// a violated check may natively show up as a panic or a different failed check: still a real failure of the harness
					if !ok && (nr.Outcome == "panic" || nr.Outcome == "checkfail") {
						ok = true
						notes = append(notes, fmt.Sprintf("replay of %s/%s failed natively as %s %q", rf.r.Name, rf.v.Label, nr.Outcome, nr.Label))
					}
				}
				if !ok {
					rf.v.failedReplays++
					if rf.v.failedReplays == 1+len(rf.v.Alt) {
						mismatches++
						rf.r.Inconclusive[fmt.Sprintf("ENCODER-MISMATCH: candidate %q did not reproduce natively in %d model(s) (native outcome %s %s)", rf.v.Label, rf.v.failedReplays, nr.Outcome, nr.Label)]++
						fmt.Printf("ENCODER-MISMATCH property=%s harness=%s label=%q inputs=%v native=%s %s\n", propID, rf.r.Name, rf.v.Label, rf.v.Inputs, nr.Outcome, nr.Label)
					}
					continue
				}
				rf.v.confirmed = true
				if k := isKnown(rf.r.Name, rf.v.Label); k != nil {
					knownHits++
					fmt.Printf("KNOWN-FINDING: property=%s %s [%s/%s]\n", propID, k.What, rf.r.Name, rf.v.Label)
					continue
				}
				confirmed++
				path := filepath.Join(outDir, fmt.Sprintf("cex-%s-%d.json", rf.r.Name, confirmed))
				cb, _ := json.MarshalIndent(map[string]interface{}{"property": propID, "harness": rf.r.Name, "pkg_dir": pkgDir, "label": rf.v.Label, "inputs": rf.v.Inputs,
					"native_outcome": nr.Outcome, "native_label": nr.Label, "native_stack": nr.Stack, "symbolic_stack": rf.v.Stack, "path": rf.v.Path}, "", " ")
				os.WriteFile(path, cb, 0o644)
				violLines = append(violLines, fmt.Sprintf("VIOLATION property=%s replay=%s", propID, path))
				fmt.Printf("  violated: harness=%s label=%q inputs=%v native=%s %q\n", rf.r.Name, rf.v.Label, rf.v.Inputs, nr.Outcome, nr.Label)
			case "sample":
				want := rf.s.Outcome
				got := nr.Outcome
				same := (want == "ok" && got == "ok") || (want == "panic" && got == "panic")
				if same && want == "ok" {
					if len(nr.Obs) != len(rf.s.Obs) {
						same = false
					} else {
						for j := range nr.Obs {
							if nr.Obs[j] != rf.s.Obs[j] && !strings.HasSuffix(rf.s.Obs[j], "=?") {
								same = false
							}
						}
					}
				}
				if same {
					validated++
				} else if got == "assumefail" {
					// the model violates an Assume evaluated natively differently: mismatch
					mismatches++
					rf.r.Inconclusive["TRANSLATOR-MISMATCH (assume) on sample"]++
					fmt.Printf("TRANSLATOR-MISMATCH property=%s harness=%s inputs=%v want=%s/%v got=%s %s/%v\n", propID, rf.r.Name, rf.s.Inputs, want, rf.s.Obs, got, nr.Label, nr.Obs)
				} else {
					mismatches++
					rf.r.Inconclusive["TRANSLATOR-MISMATCH on sample"]++
					fmt.Printf("TRANSLATOR-MISMATCH property=%s harness=%s inputs=%v want=%s/%v got=%s %s/%v\n", propID, rf.r.Name, rf.s.Inputs, want, rf.s.Obs, got, nr.Label, nr.Obs)
				}
			}
		}
	}

	// ---- evidence
	cov := map[string]interface{}{}
	states, transitions, obligations, discharged, queries := 0, 0, 0, 0, 0
	symDecisions := 0
	solverT := 0.0
	funcs := map[string]bool{}
	stubs := map[string]int{}
	goSkipped := map[string]int{}
	var samples []interface{}
	incon := map[string]int{}
	var perHarness []map[string]interface{}
	vacuous := []string{}
	for _, r := range results {
		states += r.Paths
		transitions += r.AllDecisions
		symDecisions += r.Decisions
		obl := r.ChecksProved + r.ChecksConst + len(r.Violations)
		for _, n := range r.Inconclusive {
			obl += n
		}
		obligations += obl
		discharged += r.ChecksProved + r.ChecksConst
		queries += r.Queries
		solverT += r.SolverTime.Seconds()
		for f := range r.Funcs {
			funcs[f] = true
		}
		for k, v := range r.Stubs {
			stubs[k] += v
		}
		for k, v := range r.GoSkipped {
			goSkipped[k] += v
		}
		for k, v := range r.Inconclusive {
			incon[r.Name+": "+k] += v
		}
		for i, s := range r.Samples {
			if i < 2 {
				samples = append(samples, map[string]interface{}{"harness": r.Name, "inputs": s.Inputs, "predicted_observations": s.Obs, "outcome": s.Outcome})
			}
		}
		for _, ps := range r.PathSamples {
			if len(samples) < 12 {
				samples = append(samples, map[string]interface{}{"harness": r.Name, "path": ps})
			}
		}
		if r.Reached["end"] == 0 {
			vacuous = append(vacuous, r.Name)
		}
		vs := []string{}
		for k, v := range r.Violations {
			st := "unconfirmed"
			if v.confirmed {
				st = "confirmed-by-native-replay"
			}
			vs = append(vs, k+" ["+st+"]")
		}
		sort.Strings(vs)
		perHarness = append(perHarness, map[string]interface{}{"harness": r.Name, "paths": r.Paths, "paths_reaching_end": r.Reached["end"], "symbolic_decisions": r.Decisions,
			"checks_proved_unsat": r.ChecksProved, "checks_constant_true": r.ChecksConst, "violations": vs, "queries": r.Queries, "solver_time_s": round2(r.SolverTime.Seconds()),
			"wall_s": round2(r.Wall.Seconds()), "max_alloc_elems": r.MaxAlloc, "solver_unknowns": r.Unknowns, "recovered_panics": r.Recovered, "interpreted_steps": r.Steps})
	}
	if loadErr != "" {
		incon["harness load: "+loadErr]++
		states, transitions = 1, 1
		samples = append(samples, map[string]interface{}{"load_error": loadErr})
	}
	for _, h := range vacuous {
		incon[h+": VACUOUS: no path reached the end of the harness"]++
	}
	if states == 0 {
		states = 0
	}
	cov["states"] = states
	cov["transitions"] = transitions
	cov["symbolic_branch_decisions"] = symDecisions
	cov["traces_validated_against_impl"] = validated
	cov["samples"] = samples
	cov["obligations"] = obligations
	cov["discharged"] = discharged
	cov["inconclusive"] = incon
	cov["translator_mismatches"] = mismatches
	cov["queries"] = queries
	cov["solver_time_s"] = round2(solverT)
	cov["solver"] = solverVersion(opts.SolverKind)
	cov["harnesses"] = perHarness
	cov["functions_encoded"] = funcList(ld, funcs)
	cov["functions_encoded_count"] = len(funcs)
	cov["stubs"] = stubs
	cov["go_statements_skipped"] = goSkipped
	cov["bounds"] = cfg.Bounds
	cov["outside_claim"] = cfg.Outside
	cov["known_findings_hit"] = knownHits
	cov["notes"] = notes
	cov["exhaustive"] = len(incon) == 0
	cov["explanation"] = "bounded symbolic execution of the real functions (go/ssa of /repo's working tree) with an SMT solver deciding every branch feasibility and every assertion; states = feasible paths completed, transitions = decisions taken along them (solver-decided symbolic branches, listed separately as symbolic_branch_decisions, plus enumerated harness choices); unsat on every path = holds for all inputs within bounds"
	asm := append([]string{}, cfg.Assumptions...)
	for k := range stubs {
		if !strings.HasPrefix(k, symxPath) {
			asm = append(asm, "stub: "+k)
		}
	}
	sort.Strings(asm)
	ev := evidence{PropertyID: propID, Tier: tier, Seed: opts.Seed, Level: "model_checking", Coverage: cov, Assumptions: asm, WallS: round2(wall.Seconds()), Violations: confirmed}
	if states == 0 {
		// schema requires >= 1 for model_checking keys; report honestly through the fallback-free "other" shape
		cov["states"] = 0
		ev.Level = "other"
	}
	eb, _ := json.MarshalIndent(ev, "", " ")
	os.MkdirAll(filepath.Join(verifDir, "evidence"), 0o755)
	os.WriteFile(filepath.Join(verifDir, "evidence", propID+".json"), eb, 0o644)

	fmt.Printf("SUMMARY property=%s tier=%s paths=%d decisions=%d obligations=%d discharged=%d inconclusive=%d violations=%d known=%d validated_samples=%d mismatches=%d wall=%.1fs\n",
		propID, tier, states, transitions, obligations, discharged, len(incon), confirmed, knownHits, validated, mismatches, wall.Seconds())
	for k, n := range incon {
		fmt.Printf("INCONCLUSIVE property=%s %s (x%d)\n", propID, k, n)
	}
	for _, l := range violLines {
		fmt.Println(l)
	}
	if confirmed > 0 {
		return 1
	}
	return 0
}

func round2(f float64) float64 { return float64(int(f*100)) / 100 }

func solverVersion(kind string) string {
	argv := solverArgv(kind, 1000)
	out, err := exec.Command(argv[0], "--version").Output()
	if err != nil {
		return kind
	}
	return strings.TrimSpace(strings.Split(string(out), "\n")[0])
}

// funcList returns name + sha256 of source span for every interpreted function of the repo
// (dependencies are listed by name only).
func funcList(ld *Loaded, funcs map[string]bool) []string {
	if ld == nil {
		return nil
	}
	var out []string
	fileCache := map[string][]byte{}
	for _, sp := range ld.prog.AllPackages() {
		_ = sp
	}
	fset := ld.prog.Fset
	seen := map[string]bool{}
	var visit func(name string, pos, end token.Pos)
	visit = func(name string, pos, end token.Pos) {
		if seen[name] {
			return
		}
		seen[name] = true
		h := ""
		if pos.IsValid() && end.IsValid() {
			p, e := fset.Position(pos), fset.Position(end)
			if strings.HasPrefix(p.Filename, repoDir) {
				b, ok := fileCache[p.Filename]
				if !ok {
					b, _ = os.ReadFile(p.Filename)
					if ov, isOv := ld.files[p.Filename]; isOv {
						b, _ = os.ReadFile(ov)
					}
					fileCache[p.Filename] = b
				}
				if p.Offset < len(b) && e.Offset <= len(b) && p.Offset < e.Offset {
					s := sha256.Sum256(b[p.Offset:e.Offset])
					h = fmt.Sprintf(" sha256:%x", s[:6])
				}
			}
		}
		out = append(out, name+h)
	}
	for fn := range allFuncs(ld) {
		if !funcs[fn.String()] {
			continue
		}
		var pos, end token.Pos
		if syn := fn.Syntax(); syn != nil {
			pos, end = syn.Pos(), syn.End()
		}
		visit(fn.String(), pos, end)
	}
	sort.Strings(out)
	if len(out) > 400 {
		// keep repo functions, summarise the rest
		var repo []string
		other := 0
		for _, s := range out {
			if strings.Contains(s, modPath) {
				repo = append(repo, s)
			} else {
				other++
			}
		}
		repo = append(repo, fmt.Sprintf("(+%d functions of dependencies / standard library interpreted from source)", other))
		return repo
	}
	return out
}

var _ = bytes.MinRead

func allFuncs(ld *Loaded) map[*ssa.Function]bool { return ssautil.AllFunctions(ld.prog) }
