package main

// symx word helpers: 256-bit reference semantics as single bit-vector operations.

import (
	"math/big"

	"golang.org/x/tools/go/ssa"
)

func (in *Interp) wordTerm(v Value) *Term {
	a := v.(*Array)
	r := a.E[0].(*Term)
	for _, e := range a.E[1:] {
		r = in.tt.Concat(r, e.(*Term))
	}
	return r
}

func (in *Interp) wordValue(t *Term) Value {
	n := t.sort.W / 8
	a := &Array{E: make([]Value, n)}
	for i := 0; i < n; i++ {
		hi := t.sort.W - 8*i - 1
		a.E[i] = in.tt.Extract(hi, hi-7, t)
	}
	return a
}

func (in *Interp) boolWord(c *Term) *Term {
	return in.tt.Ite(c, in.tt.BV(256, 1), in.tt.BV(256, 0))
}

func init() {
	type I = *Interp
	sx := func(n string, f func(in I, a []*Term) *Term) {
		reg(symxPath+"."+n, func(in *Interp, fr *frame, args []Value, _ *ssa.CallCommon) Value {
			ts := make([]*Term, len(args))
			for i, x := range args {
				ts[i] = in.wordTerm(x)
			}
			return in.wordValue(f(in, ts))
		})
	}
	z := func(in I) *Term { return in.tt.BV(256, 0) }
	sx("WAdd", func(in I, a []*Term) *Term { return in.tt.BVBin(OAdd, a[0], a[1]) })
	sx("WSub", func(in I, a []*Term) *Term { return in.tt.BVBin(OSub, a[0], a[1]) })
	sx("WMul", func(in I, a []*Term) *Term { return in.tt.BVBin(OMul, a[0], a[1]) })
	divlike := func(op Op) func(in I, a []*Term) *Term {
		return func(in I, a []*Term) *Term {
			return in.tt.Ite(in.tt.Eq(a[1], z(in)), z(in), in.tt.BVBin(op, a[0], a[1]))
		}
	}
	sx("WDiv", divlike(OUDiv))
	sx("WMod", divlike(OURem))
	sx("WSDiv", divlike(OSDiv))
	sx("WSMod", divlike(OSRem))
	sx("WLt", func(in I, a []*Term) *Term { return in.boolWord(in.tt.Cmp(OUlt, a[0], a[1])) })
	sx("WGt", func(in I, a []*Term) *Term { return in.boolWord(in.tt.Cmp(OUlt, a[1], a[0])) })
	sx("WSlt", func(in I, a []*Term) *Term { return in.boolWord(in.tt.Cmp(OSlt, a[0], a[1])) })
	sx("WSgt", func(in I, a []*Term) *Term { return in.boolWord(in.tt.Cmp(OSlt, a[1], a[0])) })
	sx("WEq", func(in I, a []*Term) *Term { return in.boolWord(in.tt.Eq(a[0], a[1])) })
	sx("WIsZero", func(in I, a []*Term) *Term { return in.boolWord(in.tt.Eq(a[0], z(in))) })
	sx("WAnd", func(in I, a []*Term) *Term { return in.tt.BVBin(OAnd, a[0], a[1]) })
	sx("WOr", func(in I, a []*Term) *Term { return in.tt.BVBin(OOr, a[0], a[1]) })
	sx("WXor", func(in I, a []*Term) *Term { return in.tt.BVBin(OXor, a[0], a[1]) })
	sx("WNot", func(in I, a []*Term) *Term { return in.tt.BVNot(a[0]) })
	sx("WShl", func(in I, a []*Term) *Term { return in.tt.BVBin(OShl, a[1], a[0]) })
	sx("WShr", func(in I, a []*Term) *Term { return in.tt.BVBin(OLShr, a[1], a[0]) })
	sx("WSar", func(in I, a []*Term) *Term { return in.tt.BVBin(OAShr, a[1], a[0]) })
	sx("WByte", func(in I, a []*Term) *Term {
		// byte i counted from the most significant: (x >> (8*(31-i))) & 0xff for i < 32
		tt := in.tt
		sh := tt.BVBin(OMul, tt.BVBin(OSub, tt.BV(256, 31), a[0]), tt.BV(256, 8))
		r := tt.BVBin(OAnd, tt.BVBin(OLShr, a[1], sh), tt.BV(256, 0xff))
		return tt.Ite(tt.Cmp(OUlt, a[0], tt.BV(256, 32)), r, z(in))
	})
	sx("WSignExtend", func(in I, a []*Term) *Term {
		tt := in.tt
		// for b < 31: shift left by 8*(30-b)+... : t = 248 - 8b ; (x << t) >>s t
		t := tt.BVBin(OSub, tt.BV(256, 248), tt.BVBin(OMul, a[0], tt.BV(256, 8)))
		r := tt.BVBin(OAShr, tt.BVBin(OShl, a[1], t), t)
		return tt.Ite(tt.Cmp(OUlt, a[0], tt.BV(256, 31)), r, a[1])
	})
	reg(symxPath+".WFromU64", func(in *Interp, fr *frame, args []Value, _ *ssa.CallCommon) Value {
		return in.wordValue(in.tt.ZExt(args[0].(*Term), 256))
	})
	reg(symxPath+".WEqual", func(in *Interp, fr *frame, args []Value, _ *ssa.CallCommon) Value {
		return in.tt.Eq(in.wordTerm(args[0]), in.wordTerm(args[1]))
	})

	// holiman/uint256 heavy kernels (module dependency, not repository code) are replaced by
	// their exact 256-bit semantics so that the opcode glue in /repo is checked at full width.
	u256 := func(in *Interp, v Value) *Term {
		p := v.(*Ptr)
		if IsNilPtr(p) {
			in.goPanic("runtime error: invalid memory address or nil pointer dereference (nil *uint256.Int)")
		}
		a := walk(p.obj.v, p.path).(*Array)
		r := a.E[3].(*Term)
		for i := 2; i >= 0; i-- {
			r = in.tt.Concat(r, a.E[i].(*Term))
		}
		return r
	}
	setU256 := func(in *Interp, v Value, t *Term) Value {
		p := v.(*Ptr)
		a := &Array{E: make([]Value, 4)}
		for i := 0; i < 4; i++ {
			a.E[i] = in.tt.Extract(64*i+63, 64*i, t)
		}
		in.store(p, a)
		return p
	}
	u := func(n string, f func(in *Interp, a []*Term) *Term) {
		reg("(*github.com/holiman/uint256.Int)."+n, func(in *Interp, fr *frame, args []Value, _ *ssa.CallCommon) Value {
			ts := make([]*Term, len(args)-1)
			for i := range ts {
				ts[i] = u256(in, args[i+1])
			}
			return setU256(in, args[0], f(in, ts))
		})
	}
	u("Mul", func(in *Interp, a []*Term) *Term { return in.tt.BVBin(OMul, a[0], a[1]) })
	u("Div", divlike(OUDiv))
	u("Mod", divlike(OURem))
	u("SDiv", divlike(OSDiv))
	u("SMod", divlike(OSRem))
	wide := func(op Op, ext int) func(in *Interp, a []*Term) *Term {
		return func(in *Interp, a []*Term) *Term {
			tt := in.tt
			w := 256 + ext
			x, y, m := tt.ZExt(a[0], w), tt.ZExt(a[1], w), tt.ZExt(a[2], w)
			r := tt.Extract(255, 0, tt.BVBin(OURem, tt.BVBin(op, x, y), m))
			return tt.Ite(tt.Eq(a[2], z(in)), z(in), r)
		}
	}
	u("AddMod", wide(OAdd, 1))
	u("MulMod", wide(OMul, 256))
	sx("WAddMod", wide(OAdd, 1))
	sx("WMulMod", wide(OMul, 256))
	expF := func(in *Interp, a []*Term) *Term {
		if a[0].IsConst() && a[1].IsConst() {
			return in.tt.BVBig(256, new(big.Int).Exp(a[0].ConstBig(), a[1].ConstBig(), pow2(256)))
		}
		return in.tt.App("EXP256", BVSort(256), a[0], a[1])
	}
	u("Exp", expF)
	sx("WExp", expF)

	// uint256.udivrem: exact semantics as one wide bit-vector division (Knuth kernel not entered)
	reg("github.com/holiman/uint256.udivrem", func(in *Interp, fr *frame, args []Value, _ *ssa.CallCommon) Value {
		tt := in.tt
		quot := args[0].(Slice)
		u := in.sliceTerms(args[1].(Slice))
		dp := args[2].(*Ptr)
		d := walk(dp.obj.v, dp.path).(*Array)
		n := len(u)
		cat := func(ls []*Term) *Term { // little-endian limbs -> one BV
			r := ls[len(ls)-1]
			for i := len(ls) - 2; i >= 0; i-- {
				r = tt.Concat(r, ls[i])
			}
			return r
		}
		U := cat(u)
		dl := make([]*Term, 4)
		for i := range dl {
			dl[i] = d.E[i].(*Term)
		}
		D := tt.ZExt(cat(dl), 64*n)
		if 64*n < 256 {
			panic(unsupported{"udivrem with short numerator"})
		}
		if in.branch(tt.Eq(D, tt.BV(64*n, 0))) {
			in.goPanic("uint256.udivrem: division by zero (index out of range in real code)")
		}
		Q := tt.BVBin(OUDiv, U, D)
		R := tt.BVBin(OURem, U, D)
		for i := 0; i < quot.ln && i < n; i++ {
			in.store((&Ptr{obj: quot.arr}).sub(quot.off+i), tt.Extract(64*i+63, 64*i, Q))
		}
		rem := &Array{E: make([]Value, 4)}
		for i := 0; i < 4; i++ {
			rem.E[i] = tt.Extract(64*i+63, 64*i, R)
		}
		return rem
	})
}
