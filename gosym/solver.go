package main

// Long-lived SMT solver process (z3 -in / cvc5 --incremental) driven over pipes.

import (
	"bufio"
	"context"
	"fmt"
	"io"
	"math/big"
	"os"
	"os/exec"
	"strings"
	"time"
)

type Result int

const (
	Unsat Result = iota
	Sat
	Unknown
)

func (r Result) String() string { return [...]string{"unsat", "sat", "unknown"}[r] }

type Solver struct {
	kind      string // z3, z3-new, cvc5
	cmd       *exec.Cmd
	in        io.WriteCloser
	out       *bufio.Reader
	timeoutMs int
	defined   map[int]bool // term ids defined at the current path scope
	declUF    map[string]bool
	Deadline  time.Time // harness time budget: no fallback solver runs after it
	hashApps  []*Term   // digest applications defined on the current path (for the collision-freedom axioms)
	Queries   int
	Time      time.Duration
	Errors    int
	Unknowns  int
	log       io.Writer
	dead      bool
	level     int

	script    []string // definitions and assertions of the current path (for fallback solvers)
	recording bool
	Fallbacks []string
	FallbackN int // queries answered by a fallback solver
}

func solverArgv(kind string, timeoutMs int) []string {
	switch kind {
	case "z3":
		return []string{"/usr/bin/z3", "-in", fmt.Sprintf("-t:%d", timeoutMs)}
	case "z3-new":
		return []string{"z3-new", "-in", fmt.Sprintf("-t:%d", timeoutMs)}
	case "cvc5":
		return []string{"cvc5", "--incremental", "--lang=smt2", fmt.Sprintf("--tlimit-per=%d", timeoutMs), "--produce-models"}
	}
	panic("unknown solver " + kind)
}

func NewSolver(kind string, timeoutMs int, log io.Writer) (*Solver, error) {
	s := &Solver{kind: kind, timeoutMs: timeoutMs, log: log}
	if err := s.start(); err != nil {
		return nil, err
	}
	return s, nil
}

func (s *Solver) start() error {
	argv := solverArgv(s.kind, s.timeoutMs)
	s.cmd = exec.Command(argv[0], argv[1:]...)
	in, err := s.cmd.StdinPipe()
	if err != nil {
		return err
	}
	out, err := s.cmd.StdoutPipe()
	if err != nil {
		return err
	}
	s.cmd.Stderr = nil
	if err := s.cmd.Start(); err != nil {
		return err
	}
	s.in = in
	s.out = bufio.NewReaderSize(out, 1<<16)
	s.defined = map[int]bool{}
	s.declUF = map[string]bool{}
	s.hashApps = nil
	s.dead = false
	s.level = 0
	s.recording = false
	s.script = s.script[:0]
	if s.kind == "cvc5" {
		s.send("(set-logic ALL)")
	}
	s.send("(set-option :produce-models true)")
	s.send("(push 1)")
	s.level = 1
	s.recording = true
	return nil
}

func (s *Solver) Close() {
	if s.cmd != nil && s.cmd.Process != nil {
		s.in.Close()
		s.cmd.Process.Kill()
		s.cmd.Wait()
	}
}

func (s *Solver) restart() {
	s.Close()
	if err := s.start(); err != nil {
		panic(err)
	}
}

func (s *Solver) send(line string) {
	if s.recording {
		s.script = append(s.script, line)
	}
	if s.log != nil {
		fmt.Fprintln(s.log, line)
	}
	if _, err := io.WriteString(s.in, line+"\n"); err != nil {
		s.dead = true
	}
}

// readReply reads one s-expression or atom reply (balanced parentheses).
func (s *Solver) readReply() (string, error) {
	var sb strings.Builder
	depth := 0
	started := false
	for {
		line, err := s.out.ReadString('\n')
		if err != nil {
			return sb.String(), err
		}
		inStr := false
		inBar := false
		for _, c := range line {
			switch {
			case inStr:
				if c == '"' {
					inStr = false
				}
			case inBar:
				if c == '|' {
					inBar = false
				}
			case c == '"':
				inStr = true
			case c == '|':
				inBar = true
			case c == '(':
				depth++
			case c == ')':
				depth--
			}
		}
		if strings.TrimSpace(line) != "" {
			started = true
		}
		sb.WriteString(line)
		if started && depth <= 0 {
			return strings.TrimSpace(sb.String()), nil
		}
	}
}

// NewPath resets the path-level assertion scope.
func (s *Solver) NewPath() {
	if s.dead {
		s.restart()
		return
	}
	s.recording = false
	s.script = s.script[:0]
	s.send(fmt.Sprintf("(pop %d)", s.level))
	s.send("(push 1)")
	s.level = 1
	s.defined = map[int]bool{}
	s.declUF = map[string]bool{}
	s.hashApps = nil
	s.recording = true
}

func (s *Solver) define(tt *TermTable, t *Term) {
	var defs []*Term
	CollectDefs(t, s.defined, &defs)
	for _, d := range defs {
		switch d.op {
		case OVar:
			s.send(fmt.Sprintf("(declare-fun %s () %s)", smtName(d.name), d.sort))
		case OApp:
			if !s.declUF[d.name] {
				s.declUF[d.name] = true
				sig := tt.ufs[d.name]
				var as []string
				for _, a := range sig.args {
					as = append(as, a.String())
				}
				s.send(fmt.Sprintf("(declare-fun %s (%s) %s)", smtName(d.name), strings.Join(as, " "), sig.ret))
			}
			s.send(fmt.Sprintf("(define-fun t%d () %s %s)", d.id, d.sort, d.body()))
			if strings.HasPrefix(d.name, "H:") && len(d.args) == 1 {
				// collision freedom among the digests on this path: equal digests of equal-length
				// inputs have equal inputs; digests of inputs of different length differ
				alg := d.name[:strings.LastIndex(d.name, ":")]
				for _, e := range s.hashApps {
					if e.sort != d.sort || !strings.HasPrefix(e.name, alg+":") {
						continue
					}
					if e.name == d.name {
						s.send(fmt.Sprintf("(assert (=> (= t%d t%d) (= %s %s)))", d.id, e.id, d.args[0].ref(), e.args[0].ref()))
					} else {
						s.send(fmt.Sprintf("(assert (not (= t%d t%d)))", d.id, e.id))
					}
				}
				s.hashApps = append(s.hashApps, d)
			}
		default:
			s.send(fmt.Sprintf("(define-fun t%d () %s %s)", d.id, d.sort, d.body()))
		}
	}
}

// Assert adds t to the path scope permanently (until NewPath).
func (s *Solver) Assert(tt *TermTable, t *Term) {
	s.define(tt, t)
	s.send("(assert " + t.ref() + ")")
}

// Check checks satisfiability of the path scope plus extra (extra may be nil).
// If wantModel and sat, values for vars are returned.
func (s *Solver) Check(tt *TermTable, extra *Term, wantModel bool, vars []*Term) (Result, Model) {
	start := time.Now()
	defer func() { s.Time += time.Since(start); s.Queries++ }()
	for _, v := range vars {
		s.define(tt, v)
	}
	if extra != nil {
		s.define(tt, extra) // definitions outside the inner push so they persist on the path
	}
	s.recording = false
	defer func() { s.recording = true }()
	if extra != nil {
		s.send("(push 1)")
		s.send("(assert " + extra.ref() + ")")
	}
	s.send("(check-sat)")
	// hard deadline: the solver's soft timeout is not honoured by every preprocessing step
	watchdog := time.AfterFunc(time.Duration(s.timeoutMs)*time.Millisecond*3/2+5*time.Second, func() {
		if s.cmd != nil && s.cmd.Process != nil {
			s.cmd.Process.Kill()
		}
	})
	rep, err := s.readReply()
	watchdog.Stop()
	res := Unknown
	if err != nil {
		s.dead = true
		s.Errors++
		return Unknown, nil
	}
	switch {
	case strings.HasPrefix(rep, "unsat"):
		res = Unsat
	case strings.HasPrefix(rep, "sat"):
		res = Sat
	case strings.HasPrefix(rep, "unknown"), strings.HasPrefix(rep, "timeout"):
		res = Unknown
		if r2, m2, ok := s.fallback(extra, wantModel, vars); ok {
			if extra != nil {
				s.send("(pop 1)")
			}
			s.FallbackN++
			return r2, m2
		}
		s.Unknowns++
	default:
		// (error ...) or anything else: inconclusive; restart to get a clean state
		s.Errors++
		s.dead = true
		if s.log != nil {
			fmt.Fprintln(s.log, "; UNEXPECTED REPLY:", rep)
		}
		return Unknown, nil
	}
	var model Model
	if res == Sat && wantModel && len(vars) > 0 {
		model = Model{}
		// chunk get-value to keep replies small
		for i := 0; i < len(vars); i += 64 {
			j := i + 64
			if j > len(vars) {
				j = len(vars)
			}
			var names []string
			for _, v := range vars[i:j] {
				names = append(names, v.ref())
			}
			s.send("(get-value (" + strings.Join(names, " ") + "))")
			rep, err := s.readReply()
			if err != nil || strings.HasPrefix(rep, "(error") {
				s.dead = true
				s.Errors++
				return Unknown, nil
			}
			parseGetValue(rep, vars[i:j], model)
		}
	}
	if extra != nil {
		s.send("(pop 1)")
	}
	return res, model
}

// parseGetValue parses ((|x| #x0a) (|y| true) (|z| (- 5))) in order of vars.
func parseGetValue(rep string, vars []*Term, m Model) {
	toks := tokenize(rep)
	// skip outer "("
	i := 0
	if i < len(toks) && toks[i] == "(" {
		i++
	}
	for _, v := range vars {
		if i >= len(toks) || toks[i] != "(" {
			return
		}
		i++ // (
		// the name: either atom or parenthesised expr
		i = skipSexp(toks, i)
		// the value
		start := i
		i = skipSexp(toks, i)
		val := parseValue(toks[start:i])
		if val != nil {
			m[modelKey(v)] = val
		}
		if i < len(toks) && toks[i] == ")" {
			i++
		}
	}
}

func tokenize(s string) []string {
	var toks []string
	i := 0
	for i < len(s) {
		c := s[i]
		switch {
		case c == '(' || c == ')':
			toks = append(toks, string(c))
			i++
		case c == ' ' || c == '\n' || c == '\t' || c == '\r':
			i++
		case c == '|':
			j := strings.IndexByte(s[i+1:], '|')
			toks = append(toks, s[i:i+j+2])
			i += j + 2
		default:
			j := i
			for j < len(s) && !strings.ContainsRune("() \n\t\r", rune(s[j])) {
				j++
			}
			toks = append(toks, s[i:j])
			i = j
		}
	}
	return toks
}

func skipSexp(toks []string, i int) int {
	if i >= len(toks) {
		return i
	}
	if toks[i] != "(" {
		return i + 1
	}
	d := 0
	for i < len(toks) {
		if toks[i] == "(" {
			d++
		} else if toks[i] == ")" {
			d--
			if d == 0 {
				return i + 1
			}
		}
		i++
	}
	return i
}

func parseValue(toks []string) *big.Int {
	if len(toks) == 0 {
		return nil
	}
	if len(toks) == 1 {
		t := toks[0]
		switch {
		case t == "true":
			return big.NewInt(1)
		case t == "false":
			return big.NewInt(0)
		case strings.HasPrefix(t, "#x"):
			v, _ := new(big.Int).SetString(t[2:], 16)
			return v
		case strings.HasPrefix(t, "#b"):
			v, _ := new(big.Int).SetString(t[2:], 2)
			return v
		default:
			v, ok := new(big.Int).SetString(t, 10)
			if ok {
				return v
			}
			return nil
		}
	}
	// (- 5) or (_ bv5 8)
	if toks[0] == "(" && len(toks) >= 4 && toks[1] == "-" {
		v := parseValue(toks[2 : len(toks)-1])
		if v != nil {
			return v.Neg(v)
		}
	}
	if toks[0] == "(" && len(toks) >= 5 && toks[1] == "_" && strings.HasPrefix(toks[2], "bv") {
		v, _ := new(big.Int).SetString(toks[2][2:], 10)
		return v
	}
	return nil
}

// fallback re-runs the current query (path script + extra) one-shot on the other solvers.
func (s *Solver) fallback(extra *Term, wantModel bool, vars []*Term) (Result, Model, bool) {
	if len(s.Fallbacks) == 0 || (!s.Deadline.IsZero() && time.Now().After(s.Deadline)) {
		return Unknown, nil, false
	}
	var sb strings.Builder
	sb.WriteString("(set-option :produce-models true)\n")
	for _, l := range s.script {
		sb.WriteString(l)
		sb.WriteByte('\n')
	}
	if extra != nil {
		sb.WriteString("(assert " + extra.ref() + ")\n")
	}
	sb.WriteString("(check-sat)\n")
	if wantModel && len(vars) > 0 {
		var names []string
		for _, v := range vars {
			names = append(names, v.ref())
		}
		sb.WriteString("(get-value (" + strings.Join(names, " ") + "))\n")
	}
	for _, fb := range s.Fallbacks {
		f, err := os.CreateTemp("/var/tmp", "gosym-q-*.smt2")
		if err != nil {
			return Unknown, nil, false
		}
		script := sb.String()
		if fb == "cvc5" {
			script = "(set-logic ALL)\n" + script
		}
		f.WriteString(script)
		f.Close()
		var argv []string
		switch fb {
		case "z3-new":
			argv = []string{"z3-new", fmt.Sprintf("-T:%d", s.timeoutMs/1000+1), f.Name()}
		case "z3":
			argv = []string{"/usr/bin/z3", fmt.Sprintf("-T:%d", s.timeoutMs/1000+1), f.Name()}
		case "cvc5":
			argv = []string{"cvc5", "--lang=smt2", fmt.Sprintf("--tlimit=%d", s.timeoutMs), "--produce-models", f.Name()}
		}
		ctx, cancel := context.WithTimeout(context.Background(), time.Duration(s.timeoutMs)*time.Millisecond+10*time.Second)
		out, _ := exec.CommandContext(ctx, argv[0], argv[1:]...).Output()
		cancel()
		os.Remove(f.Name())
		rep := strings.TrimSpace(string(out))
		if strings.Contains(rep, "(error") {
			continue
		}
		switch {
		case strings.HasPrefix(rep, "unsat"):
			return Unsat, nil, true
		case strings.HasPrefix(rep, "sat"):
			m := Model{}
			if wantModel && len(vars) > 0 {
				rest := strings.TrimSpace(strings.TrimPrefix(rep, "sat"))
				parseGetValue(rest, vars, m)
			}
			return Sat, m, true
		}
	}
	return Unknown, nil, false
}
