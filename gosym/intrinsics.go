package main

// Intrinsics: functions whose SSA body is not entered. Every entry here is part of the
// trusted base and is listed in the evidence ("stubs").

import (
	"fmt"
	"go/types"
	"math/big"
	"strings"

	"golang.org/x/tools/go/ssa"
)

const symxPath = "com.tuntun.rangers/node/src/zz_symx"

var intrinsics = map[string]intrinsic{}

// prefix rules: name prefix -> handler
type prefixRule struct {
	prefix string
	h      intrinsic
}

var prefixRules []prefixRule

func reg(name string, h intrinsic) { intrinsics[name] = h }
func regPrefix(p string, h intrinsic) {
	prefixRules = append(prefixRules, prefixRule{p, h})
}

func findIntrinsic(in *Interp, name string, fn *ssa.Function) intrinsic {
	if h, ok := intrinsics[name]; ok {
		return h
	}
	for _, r := range prefixRules {
		if strings.HasPrefix(name, r.prefix) {
			return r.h
		}
	}
	return nil
}

// noop returns the zero value(s) of the callee's result types.
func noopFor(name string) intrinsic {
	return func(in *Interp, fr *frame, args []Value, site *ssa.CallCommon) Value {
		return nil
	}
}

func zeroRes(in *Interp, fr *frame, args []Value, site *ssa.CallCommon) Value {
	return nil
}

func (in *Interp) freshName(base string) string {
	n := in.P.fresh[base]
	in.P.fresh[base] = n + 1
	if n == 0 {
		return base
	}
	return fmt.Sprintf("%s~%d", base, n)
}

func argStr(v Value) string {
	s, ok := isConcreteStr(v)
	if !ok {
		panic(unsupported{"symbolic string where a concrete name is required"})
	}
	return s
}

func (in *Interp) argInt(v Value) int {
	t := v.(*Term)
	if !t.IsConst() {
		panic(unsupported{"symbolic integer where a concrete bound is required"})
	}
	return int(sext64(t.cv, t.sort.W))
}

func (in *Interp) symBytes(name string, n int, kind string) []*Term {
	return in.symBytesNamed(in.freshName(name), n, kind)
}

func (in *Interp) symBytesNamed(name string, n int, kind string) []*Term {
	bs := make([]*Term, n)
	for i := range bs {
		bs[i] = in.tt.Var(fmt.Sprintf("%s[%d]", name, i), BVSort(8))
	}
	in.P.inputs = append(in.P.inputs, inputRec{Name: name, Kind: kind, Vars: bs})
	return bs
}

func (in *Interp) symScalar(name string, s Sort, kind string) *Term {
	name = in.freshName(name)
	v := in.tt.Var(name, s)
	in.P.inputs = append(in.P.inputs, inputRec{Name: name, Kind: kind, Vars: []*Term{v}})
	return v
}

func (in *Interp) concInput(name string, v int64) {
	in.P.inputs = append(in.P.inputs, inputRec{Name: name, Kind: "conc", Conc: big.NewInt(v)})
}

func init() {
	sx := func(n string, h intrinsic) { reg(symxPath+"."+n, h) }
	sx("Bytes", func(in *Interp, fr *frame, a []Value, _ *ssa.CallCommon) Value {
		return in.mkByteSlice(in.symBytes(argStr(a[0]), in.argInt(a[1]), "bytes"))
	})
	sx("BytesRange", func(in *Interp, fr *frame, a []Value, _ *ssa.CallCommon) Value {
		lo, hi := in.argInt(a[1]), in.argInt(a[2])
		c := in.decideN(hi-lo+1, "len")
		name := in.freshName(argStr(a[0]))
		in.concInput(name+"#len", int64(lo+c))
		return in.mkByteSlice(in.symBytesNamed(name, lo+c, "bytes"))
	})
	sx("Str", func(in *Interp, fr *frame, a []Value, _ *ssa.CallCommon) Value {
		return in.mkStr(in.symBytes(argStr(a[0]), in.argInt(a[1]), "str"))
	})
	for _, k := range []struct {
		n string
		w int
	}{{"U8", 8}, {"U16", 16}, {"U32", 32}, {"U64", 64}, {"Int", 64}, {"I64", 64}} {
		w := k.w
		sx(k.n, func(in *Interp, fr *frame, a []Value, _ *ssa.CallCommon) Value {
			if in.opts.IntLimbs && w == 64 {
				// integer-encoded input: an Int variable in [0,2^64) viewed as a bit-vector
				v := in.symScalar(argStr(a[0]), IntSort, "uint")
				in.tt.rangeVars[v] = 64
				in.assume(in.tt.ICmp(OILe, in.tt.IntI(0), v))
				in.assume(in.tt.ICmp(OILt, v, in.tt.Int(pow2(64))))
				return in.tt.Int2BV(64, v)
			}
			return in.symScalar(argStr(a[0]), BVSort(w), "uint")
		})
	}
	sx("Bool", func(in *Interp, fr *frame, a []Value, _ *ssa.CallCommon) Value {
		return in.symScalar(argStr(a[0]), BoolSort, "bool")
	})
	sx("Big", func(in *Interp, fr *frame, a []Value, _ *ssa.CallCommon) Value {
		bits := in.argInt(a[1])
		v := in.symScalar(argStr(a[0]), IntSort, "big")
		in.assume(in.tt.ICmp(OILe, in.tt.IntI(0), v))
		in.assume(in.tt.ICmp(OILt, v, in.tt.Int(new(big.Int).Lsh(big.NewInt(1), uint(bits)))))
		return in.newBig(v)
	})
	sx("BigSigned", func(in *Interp, fr *frame, a []Value, _ *ssa.CallCommon) Value {
		bits := in.argInt(a[1])
		v := in.symScalar(argStr(a[0]), IntSort, "big")
		lim := new(big.Int).Lsh(big.NewInt(1), uint(bits))
		in.assume(in.tt.ICmp(OILt, in.tt.Int(new(big.Int).Neg(lim)), v))
		in.assume(in.tt.ICmp(OILt, v, in.tt.Int(lim)))
		return in.newBig(v)
	})
	sx("Choice", func(in *Interp, fr *frame, a []Value, _ *ssa.CallCommon) Value {
		n := in.argInt(a[1])
		c := in.decideN(n, "choice")
		in.concInput(in.freshName(argStr(a[0])), int64(c))
		return in.mkInt(int64(c))
	})
	sx("Assume", func(in *Interp, fr *frame, a []Value, _ *ssa.CallCommon) Value {
		c := a[0].(*Term)
		if c == in.tt.False {
			panic(pathEnd{"assume false"})
		}
		if c == in.tt.True {
			return nil
		}
		res, _ := in.solver.Check(in.tt, c, false, nil)
		if res == Unsat {
			panic(pathEnd{"assume infeasible"})
		}
		if res == Unknown {
			in.P.unknowns++
		}
		in.assume(c)
		return nil
	})
	sx("Check", func(in *Interp, fr *frame, a []Value, _ *ssa.CallCommon) Value {
		in.check(a[0].(*Term), argStr(a[1]))
		return nil
	})
	sx("Reach", func(in *Interp, fr *frame, a []Value, _ *ssa.CallCommon) Value {
		in.P.reached[argStr(a[0])] = true
		return nil
	})
	sx("Thorough", func(in *Interp, fr *frame, a []Value, _ *ssa.CallCommon) Value {
		return in.mkBool(in.opts.Thorough)
	})
	sx("SymbolicMapOrder", func(in *Interp, fr *frame, a []Value, _ *ssa.CallCommon) Value {
		in.P.symMapOrder = a[0].(*Term).ConstBool()
		return nil
	})
	sx("Observe", func(in *Interp, fr *frame, a []Value, _ *ssa.CallCommon) Value {
		label := argStr(a[0])
		iv := a[1].(Iface)
		o := obsRec{Label: label}
		switch x := iv.v.(type) {
		case *Term:
			o.Terms = []*Term{x}
			switch {
			case x.sort.K == SBool:
				o.Kind = "bool"
			case isSigned(basicOf(iv.t)):
				o.Kind = "int"
			default:
				o.Kind = "uint"
			}
		case Slice:
			o.Kind = "bytes"
			o.Terms = in.sliceTerms(x)
		case string, *SymStr:
			o.Kind = "bytes"
			o.Terms = in.strBytes(x)
		case *Ptr:
			if isNamed(iv.t.(*types.Pointer).Elem(), "math/big", "Int") {
				if IsNilPtr(x) {
					o.Conc = "<nil>"
				} else {
					o.Kind = "int"
					o.Terms = []*Term{in.bigTerm(x)}
				}
			} else {
				panic(unsupported{"Observe of pointer"})
			}
		default:
			panic(unsupported{fmt.Sprintf("Observe of %T", iv.v)})
		}
		in.P.obs = append(in.P.obs, o)
		return nil
	})
	sx("And", func(in *Interp, fr *frame, a []Value, _ *ssa.CallCommon) Value {
		return in.tt.And(a[0].(*Term), a[1].(*Term))
	})
	sx("Or", func(in *Interp, fr *frame, a []Value, _ *ssa.CallCommon) Value {
		return in.tt.Or(a[0].(*Term), a[1].(*Term))
	})
	sx("Not", func(in *Interp, fr *frame, a []Value, _ *ssa.CallCommon) Value {
		return in.tt.Not(a[0].(*Term))
	})
	sx("Implies", func(in *Interp, fr *frame, a []Value, _ *ssa.CallCommon) Value {
		return in.tt.Or(in.tt.Not(a[0].(*Term)), a[1].(*Term))
	})
	sx("BytesEq", func(in *Interp, fr *frame, a []Value, _ *ssa.CallCommon) Value {
		return in.bytesEqTerm(in.sliceTerms(a[0].(Slice)), in.sliceTerms(a[1].(Slice)))
	})
	sx("IteU64", func(in *Interp, fr *frame, a []Value, _ *ssa.CallCommon) Value {
		return in.tt.Ite(a[0].(*Term), a[1].(*Term), a[2].(*Term))
	})
	sx("Option", func(in *Interp, fr *frame, a []Value, _ *ssa.CallCommon) Value {
		v := in.argInt(a[1])
		switch argStr(a[0]) {
		case "intlimbs":
			in.opts.IntLimbs = v != 0
			in.tt.IntMode = v != 0
		case "maxsteps":
			in.opts.MaxSteps = v
		case "maxconcretize":
			in.opts.MaxConcretize = v
		case "maxbigbytes":
			in.opts.MaxBigBytes = v
		case "maxdecdigits":
			in.opts.MaxDecDigits = v
		default:
			panic(unsupported{"unknown option " + argStr(a[0])})
		}
		return nil
	})
	sx("AllocLimit", func(in *Interp, fr *frame, a []Value, _ *ssa.CallCommon) Value {
		in.P.allocLimit = in.argInt(a[0])
		in.P.allocLimitOn = true
		return nil
	})
	sx("AssumeRange", func(in *Interp, fr *frame, a []Value, _ *ssa.CallCommon) Value {
		lo, hi := a[1].(*Term), a[2].(*Term)
		for _, b := range in.sliceTerms(a[0].(Slice)) {
			in.assume(in.tt.Cmp(OUle, lo, b))
			in.assume(in.tt.Cmp(OUle, b, hi))
		}
		return nil
	})
	sx("Digits", func(in *Interp, fr *frame, a []Value, _ *ssa.CallCommon) Value {
		// n decimal digit characters, integer-encoded: byte i = int2bv(8, 48 + d_i), 0 <= d_i <= 9
		name := in.freshName(argStr(a[0]))
		n := in.argInt(a[1])
		bs := make([]*Term, n)
		vars := make([]*Term, n)
		for i := 0; i < n; i++ {
			d := in.tt.Var(fmt.Sprintf("%s[%d]", name, i), IntSort)
			in.tt.rangeVars[d] = -9
			in.assume(in.tt.ICmp(OILe, in.tt.IntI(0), d))
			in.assume(in.tt.ICmp(OILe, d, in.tt.IntI(9)))
			vars[i] = d
			bs[i] = in.tt.Int2BV(8, in.tt.IBin(OIAdd, in.tt.IntI(48), d))
		}
		in.P.inputs = append(in.P.inputs, inputRec{Name: name, Kind: "digits", Vars: vars})
		return in.mkStr(bs)
	})
	sx("Concrete", func(in *Interp, fr *frame, a []Value, _ *ssa.CallCommon) Value {
		return in.mkBool(a[0].(*Term).IsConst())
	})

	// ---- bytes / strings shortcuts (single term instead of a forking loop)
	reg("bytes.Equal", func(in *Interp, fr *frame, a []Value, _ *ssa.CallCommon) Value {
		return in.bytesEqTerm(in.sliceTerms(a[0].(Slice)), in.sliceTerms(a[1].(Slice)))
	})
	reg("internal/bytealg.Equal", func(in *Interp, fr *frame, a []Value, _ *ssa.CallCommon) Value {
		return in.bytesEqTerm(in.sliceTerms(a[0].(Slice)), in.sliceTerms(a[1].(Slice)))
	})
	reg("bytes.Compare", func(in *Interp, fr *frame, a []Value, _ *ssa.CallCommon) Value {
		x, y := in.sliceTerms(a[0].(Slice)), in.sliceTerms(a[1].(Slice))
		lt := in.bytesLess(x, y)
		eq := in.bytesEqTerm(x, y)
		return in.tt.Ite(eq, in.mkInt(0), in.tt.Ite(lt, in.mkInt(-1), in.mkInt(1)))
	})
	reg("internal/bytealg.Compare", intrinsics["bytes.Compare"])
	reg("strings.Compare", func(in *Interp, fr *frame, a []Value, _ *ssa.CallCommon) Value {
		x, y := in.strBytes(a[0]), in.strBytes(a[1])
		lt := in.bytesLess(x, y)
		eq := in.bytesEqTerm(x, y)
		return in.tt.Ite(eq, in.mkInt(0), in.tt.Ite(lt, in.mkInt(-1), in.mkInt(1)))
	})
	reg("internal/bytealg.IndexByte", func(in *Interp, fr *frame, a []Value, _ *ssa.CallCommon) Value {
		return in.indexByte(in.sliceTerms(a[0].(Slice)), a[1].(*Term))
	})
	reg("internal/bytealg.IndexByteString", func(in *Interp, fr *frame, a []Value, _ *ssa.CallCommon) Value {
		return in.indexByte(in.strBytes(a[0]), a[1].(*Term))
	})
	reg("internal/bytealg.CountString", func(in *Interp, fr *frame, a []Value, _ *ssa.CallCommon) Value {
		bs := in.strBytes(a[0])
		r := in.mkInt(0)
		for _, b := range bs {
			r = in.tt.BVBin(OAdd, r, in.tt.Ite(in.tt.Eq(b, a[1].(*Term)), in.mkInt(1), in.mkInt(0)))
		}
		return r
	})
	reg("internal/bytealg.Count", func(in *Interp, fr *frame, a []Value, _ *ssa.CallCommon) Value {
		bs := in.sliceTerms(a[0].(Slice))
		r := in.mkInt(0)
		for _, b := range bs {
			r = in.tt.BVBin(OAdd, r, in.tt.Ite(in.tt.Eq(b, a[1].(*Term)), in.mkInt(1), in.mkInt(0)))
		}
		return r
	})
	reg("internal/bytealg.IndexString", func(in *Interp, fr *frame, a []Value, _ *ssa.CallCommon) Value {
		s, ok1 := isConcreteStr(a[0])
		t, ok2 := isConcreteStr(a[1])
		if ok1 && ok2 {
			return in.mkInt(int64(strings.Index(s, t)))
		}
		if ok2 && len(t) == 1 {
			return in.indexByte(in.strBytes(a[0]), in.mkByte(t[0]))
		}
		panic(unsupported{"strings.Index on symbolic strings (needle longer than one byte)"})
	})
	reg("internal/bytealg.MakeNoZero", func(in *Interp, fr *frame, a []Value, _ *ssa.CallCommon) Value {
		n := in.argInt(a[0])
		bs := make([]*Term, n)
		for i := range bs {
			bs[i] = in.mkByte(0)
		}
		return in.mkByteSlice(bs)
	})
	reg("internal/stringslite.Index", intrinsics["internal/bytealg.IndexString"])
	reg("strings.Index", intrinsics["internal/bytealg.IndexString"])
	reg("internal/abi.NoEscape", func(in *Interp, fr *frame, a []Value, _ *ssa.CallCommon) Value { return a[0] })
	reg("internal/abi.FuncPCABIInternal", func(in *Interp, fr *frame, a []Value, _ *ssa.CallCommon) Value { return in.mkU64(0) })
	reg("internal/abi.FuncPCABI0", func(in *Interp, fr *frame, a []Value, _ *ssa.CallCommon) Value { return in.mkU64(0) })

	// sort.Slice / SliceStable: insertion sort driven by the less closure (stable)
	sortSlice := func(in *Interp, fr *frame, a []Value, _ *ssa.CallCommon) Value {
		iv := a[0].(Iface)
		s, ok := iv.v.(Slice)
		if !ok {
			panic(unsupported{"sort.Slice on non-slice"})
		}
		es := in.sliceElems(s)
		less := func(i, j int) bool {
			r := in.call(fr, a[1], []Value{in.mkInt(int64(i)), in.mkInt(int64(j))}, nil)
			return in.branch(r.(*Term))
		}
		for i := 1; i < len(es); i++ {
			for j := i; j > 0 && less(j, j-1); j-- {
				pj, pk := (&Ptr{obj: s.arr}).sub(s.off+j), (&Ptr{obj: s.arr}).sub(s.off+j-1)
				x, y := in.load(pj), in.load(pk)
				in.store(pj, y)
				in.store(pk, x)
			}
		}
		return nil
	}
	reg("sort.Slice", sortSlice)
	reg("sort.SliceStable", sortSlice)

	// ---- sync: single-threaded, locks are no-ops
	for _, p := range []string{"(*sync.Mutex).", "(*sync.RWMutex).", "(*sync.WaitGroup).", "(*sync.Cond)."} {
		regPrefix(p, func(in *Interp, fr *frame, a []Value, _ *ssa.CallCommon) Value {
			return nil
		})
	}
	reg("(*sync.Mutex).TryLock", func(in *Interp, fr *frame, a []Value, _ *ssa.CallCommon) Value { return in.tt.True })
	reg("(*sync.RWMutex).RLocker", nil)
	delete(intrinsics, "(*sync.RWMutex).RLocker")
	reg("(*sync.Once).Do", func(in *Interp, fr *frame, a []Value, _ *ssa.CallCommon) Value {
		p := a[0].(*Ptr)
		// Once{done atomic.Uint32/uint32, m Mutex}: use field 0 as the flag
		st := walk(p.obj.v, p.path).(*Struct)
		flagPtr := p.sub(0)
		var done bool
		switch f := st.F[0].(type) {
		case *Term:
			done = f.cv != 0
		case *Struct: // atomic.Uint32{_ noCopy; v uint32}
			for i, x := range f.F {
				if t, ok := x.(*Term); ok {
					done = t.cv != 0
					flagPtr = flagPtr.sub(i)
				}
			}
		}
		if done {
			return nil
		}
		in.store(flagPtr, in.tt.BV(32, 1))
		in.call(fr, a[1], nil, nil)
		return nil
	})
	reg("(*sync.Once).doSlow", nil)
	delete(intrinsics, "(*sync.Once).doSlow")
	reg("(*sync.Pool).Get", func(in *Interp, fr *frame, a []Value, _ *ssa.CallCommon) Value {
		p := a[0].(*Ptr)
		st := walk(p.obj.v, p.path).(*Struct)
		// New is the last field
		newFn := st.F[len(st.F)-1]
		if f, ok := newFn.(*ssa.Function); ok && f == nil {
			return Iface{}
		}
		return in.call(fr, newFn, nil, nil)
	})
	reg("(*sync.Pool).Put", zeroRes)
	reg("runtime.SetFinalizer", zeroRes)
	reg("runtime.KeepAlive", zeroRes)
	reg("runtime.GC", zeroRes)
	reg("runtime.Gosched", zeroRes)
	reg("runtime.GOMAXPROCS", func(in *Interp, fr *frame, a []Value, _ *ssa.CallCommon) Value { return in.mkInt(1) })
	reg("runtime.NumCPU", func(in *Interp, fr *frame, a []Value, _ *ssa.CallCommon) Value { return in.mkInt(1) })
	reg("runtime.Caller", func(in *Interp, fr *frame, a []Value, _ *ssa.CallCommon) Value {
		return Tuple{in.mkU64(0), "", in.mkInt(0), in.tt.False}
	})
	reg("runtime/debug.Stack", func(in *Interp, fr *frame, a []Value, _ *ssa.CallCommon) Value { return Slice{} })
	reg("runtime/debug.PrintStack", zeroRes)
	reg("os.Exit", func(in *Interp, fr *frame, a []Value, _ *ssa.CallCommon) Value {
		in.goPanic("os.Exit called")
		return nil
	})

	// sync/atomic on plain cells
	atomicLoad := func(in *Interp, fr *frame, a []Value, _ *ssa.CallCommon) Value { return in.load(a[0].(*Ptr)) }
	atomicStore := func(in *Interp, fr *frame, a []Value, _ *ssa.CallCommon) Value {
		in.store(a[0].(*Ptr), a[1])
		return nil
	}
	atomicAdd := func(in *Interp, fr *frame, a []Value, _ *ssa.CallCommon) Value {
		p := a[0].(*Ptr)
		n := in.tt.BVBin(OAdd, in.load(p).(*Term), a[1].(*Term))
		in.store(p, n)
		return n
	}
	atomicSwap := func(in *Interp, fr *frame, a []Value, _ *ssa.CallCommon) Value {
		p := a[0].(*Ptr)
		old := in.load(p)
		in.store(p, a[1])
		return old
	}
	atomicCAS := func(in *Interp, fr *frame, a []Value, _ *ssa.CallCommon) Value {
		p := a[0].(*Ptr)
		old := in.load(p)
		eq := in.equalTerm(nil, old, a[1])
		if in.branch(eq) {
			in.store(p, a[2])
			return in.tt.True
		}
		return in.tt.False
	}
	for _, ty := range []string{"Int32", "Int64", "Uint32", "Uint64", "Uintptr", "Pointer"} {
		reg("sync/atomic.Load"+ty, atomicLoad)
		reg("sync/atomic.Store"+ty, atomicStore)
		reg("sync/atomic.Add"+ty, atomicAdd)
		reg("sync/atomic.Swap"+ty, atomicSwap)
		reg("sync/atomic.CompareAndSwap"+ty, atomicCAS)
	}
	// atomic.Value
	reg("(*sync/atomic.Value).Load", func(in *Interp, fr *frame, a []Value, _ *ssa.CallCommon) Value {
		p := a[0].(*Ptr)
		return in.load(p.sub(0))
	})
	reg("(*sync/atomic.Value).Store", func(in *Interp, fr *frame, a []Value, _ *ssa.CallCommon) Value {
		p := a[0].(*Ptr)
		in.store(p.sub(0), a[1])
		return nil
	})

	// ---- fmt / errors / logging: opaque
	reg("fmt.Sprintf", func(in *Interp, fr *frame, a []Value, _ *ssa.CallCommon) Value {
		return in.sprintf(a[0], a[1].(Slice))
	})
	reg("fmt.Sprint", func(in *Interp, fr *frame, a []Value, _ *ssa.CallCommon) Value {
		return in.sprint(a[0].(Slice), "")
	})
	reg("fmt.Sprintln", func(in *Interp, fr *frame, a []Value, _ *ssa.CallCommon) Value {
		return in.sprint(a[0].(Slice), " ")
	})
	reg("fmt.Errorf", func(in *Interp, fr *frame, a []Value, _ *ssa.CallCommon) Value {
		return in.newError(in.sprintf(a[0], a[1].(Slice)))
	})
	for _, n := range []string{"fmt.Printf", "fmt.Println", "fmt.Print", "fmt.Fprintf", "fmt.Fprintln", "fmt.Fprint"} {
		reg(n, func(in *Interp, fr *frame, a []Value, _ *ssa.CallCommon) Value {
			return Tuple{in.mkInt(0), Iface{}}
		})
	}
	reg("time.Now", func(in *Interp, fr *frame, a []Value, _ *ssa.CallCommon) Value {
		// a fixed instant: code under test that depends on the wall clock must get the
		// time from the harness (utility.GetTime is stubbed separately)
		return &Struct{F: []Value{in.mkU64(0), in.mkInt(0), (*Ptr)(nil)}}
	})
	reg("time.Sleep", zeroRes)
	reg("time.Since", func(in *Interp, fr *frame, a []Value, _ *ssa.CallCommon) Value { return in.mkInt(0) })
}

func (in *Interp) indexByte(bs []*Term, c *Term) Value {
	r := in.mkInt(-1)
	for i := len(bs) - 1; i >= 0; i-- {
		r = in.tt.Ite(in.tt.Eq(bs[i], c), in.mkInt(int64(i)), r)
	}
	return r
}

// newError builds an error value using the real errors.New.
func (in *Interp) newError(msg Value) Value {
	pkg := in.prog.ImportedPackage("errors")
	if pkg == nil {
		panic(unsupported{"errors package not loaded"})
	}
	return in.callSSA(in.curFrame(), pkg.Func("New"), []Value{msg}, nil, false)
}

func (in *Interp) curFrame() *frame {
	if in.P != nil {
		return in.P.curFrame
	}
	return nil
}

// sprintf renders what can be rendered: strings (also symbolic ones) and concrete scalars;
// other symbolic operands appear as "?".
func (in *Interp) sprintf(format Value, args Slice) Value {
	f, ok := isConcreteStr(format)
	if !ok {
		return "?"
	}
	es := in.sliceElems(args)
	var out []*Term
	lit := func(s string) {
		for i := 0; i < len(s); i++ {
			out = append(out, in.mkByte(s[i]))
		}
	}
	ai := 0
	for i := 0; i < len(f); i++ {
		if f[i] != '%' || i+1 >= len(f) {
			out = append(out, in.mkByte(f[i]))
			continue
		}
		j := i + 1
		for j < len(f) && strings.ContainsRune("+-# 0123456789.", rune(f[j])) {
			j++
		}
		if j >= len(f) {
			break
		}
		verb := f[j]
		spec := f[i : j+1]
		i = j
		if verb == '%' {
			out = append(out, in.mkByte('%'))
			continue
		}
		if ai >= len(es) {
			lit("%!" + string(verb) + "(MISSING)")
			continue
		}
		arg := es[ai]
		ai++
		if iv, ok := arg.(Iface); ok && iv.t != nil && (verb == 's' || verb == 'v') && spec == "%"+string(verb) {
			switch x := iv.v.(type) {
			case *SymStr:
				out = append(out, x.B...)
				continue
			case string:
				lit(x)
				continue
			}
		}
		lit(in.fmtArg(arg, spec))
	}
	return in.mkStr(out)
}

func (in *Interp) sprint(args Slice, sep string) Value {
	var parts []string
	for _, e := range in.sliceElems(args) {
		parts = append(parts, in.fmtArg(e, "%v"))
	}
	s := strings.Join(parts, sep)
	if sep != "" {
		s += "\n"
	}
	return s
}

func (in *Interp) fmtArg(v Value, spec string) string {
	iv, ok := v.(Iface)
	if !ok || iv.t == nil {
		return "<nil>"
	}
	switch x := iv.v.(type) {
	case string:
		return fmt.Sprintf(strings.Replace(spec, "d", "v", 1), x)
	case *Term:
		if x.IsConst() {
			if x.sort.K == SBool {
				return fmt.Sprintf("%v", x.ConstBool())
			}
			if b := basicOf(iv.t); b != nil && isSigned(b) {
				return fmt.Sprintf(fixVerb(spec), sext64(x.cv, x.sort.W))
			}
			return fmt.Sprintf(fixVerb(spec), x.ConstU64())
		}
		return "?"
	case float64:
		return fmt.Sprintf(fixVerb(spec), x)
	}
	return "?"
}

func fixVerb(spec string) string {
	switch spec[len(spec)-1] {
	case 's', 'q':
		return spec[:len(spec)-1] + "v"
	}
	return spec
}
