package main

// Symbolic float64 and math/big.Rat.
//
// float64 values are host floats when concrete and *SymFloat (a Real-sorted term) otherwise.
// Every float64 operation on a symbolic operand is the exact real operation followed by the
// interval model of rounding to 53 bits, nearest-even (see bigfloat.go); integer-valued results
// below 2^53 are exact. big.Rat is an exact rational: a Real-sorted term without rounding.

import (
	"fmt"
	"go/token"
	"math"
	"math/big"

	"golang.org/x/tools/go/ssa"
)

type SymFloat struct{ t *Term } // Real sort

type RatVal struct{ t *Term } // payload of a math/big.Rat struct (nil = 0)

func (in *Interp) floatReal(v Value) *Term {
	switch x := v.(type) {
	case float64:
		if math.IsNaN(x) || math.IsInf(x, 0) {
			panic(unsupported{"NaN/Inf in symbolic float arithmetic"})
		}
		r := new(big.Rat)
		r.SetFloat64(x)
		return in.tt.Real(r)
	case *SymFloat:
		return x.t
	}
	panic(fmt.Sprintf("floatReal of %T", v))
}

func (in *Interp) mkFloat(t *Term) Value {
	if t.op == OConst {
		f, _ := t.rat.Float64()
		return f
	}
	return &SymFloat{t}
}

// roundF64 rounds an exact real result to float64
func (in *Interp) roundF64(t *Term) Value {
	return in.mkFloat(in.roundReal(t, 53, int(big.ToNearestEven)))
}

// intToFloat converts a symbolic integer term (already as Int sort) to float64
func (in *Interp) intToFloat(i *Term) Value {
	// integers of magnitude below 2^53 convert exactly
	lim := in.tt.Int(pow2(53))
	small := in.tt.And(in.tt.ICmp(OILt, in.tt.INeg(lim), i), in.tt.ICmp(OILt, i, lim))
	if in.branch(small) {
		return in.mkFloat(in.tt.ToReal(i))
	}
	return in.roundF64(in.tt.ToReal(i))
}

func (in *Interp) floatBinop(op token.Token, x, y Value) Value {
	a, b := in.floatReal(x), in.floatReal(y)
	tt := in.tt
	switch op {
	case token.ADD:
		return in.roundF64(tt.RBin(OIAdd, a, b))
	case token.SUB:
		return in.roundF64(tt.RBin(OISub, a, b))
	case token.MUL:
		return in.roundF64(tt.RBin(OIMul, a, b))
	case token.QUO:
		if in.branch(tt.Eq(b, tt.Real(new(big.Rat)))) {
			panic(unsupported{"float division by zero (Inf/NaN not modelled)"})
		}
		return in.roundF64(tt.RBin(ORDiv, a, b))
	case token.LSS:
		return tt.RCmp(OILt, a, b)
	case token.LEQ:
		return tt.RCmp(OILe, a, b)
	case token.GTR:
		return tt.RCmp(OILt, b, a)
	case token.GEQ:
		return tt.RCmp(OILe, b, a)
	case token.EQL:
		return tt.Eq(a, b)
	case token.NEQ:
		return tt.Not(tt.Eq(a, b))
	}
	panic(unsupported{"float op " + op.String()})
}

// floor of a real term as an Int term
func (in *Interp) floorInt(t *Term) *Term { return in.tt.ToInt(t) }

// truncation toward zero of a real term as Int
func (in *Interp) truncInt(t *Term) *Term {
	tt := in.tt
	if t.op == OConst {
		return tt.Int(new(big.Int).Quo(t.rat.Num(), t.rat.Denom()))
	}
	zero := tt.Real(new(big.Rat))
	if in.branch(tt.RCmp(OILt, t, zero)) {
		return tt.INeg(tt.ToInt(tt.RBin(OISub, zero, t)))
	}
	return tt.ToInt(t)
}

func (in *Interp) ratAt(p *Ptr) *Term {
	if IsNilPtr(p) {
		in.goPanic("runtime error: invalid memory address or nil pointer dereference (nil *big.Rat)")
	}
	r := walk(p.obj.v, p.path).(RatVal)
	if r.t == nil {
		return in.tt.Real(new(big.Rat))
	}
	return r.t
}

func (in *Interp) setRat(p *Ptr, t *Term) *Ptr {
	in.store(p, RatVal{t})
	return p
}

func init() {
	type I = *Interp
	br := func(n string, h intrinsic) { reg("(*math/big.Rat)."+n, h) }
	br("SetInt", func(in *Interp, fr *frame, a []Value, _ *ssa.CallCommon) Value {
		return in.setRat(a[0].(*Ptr), in.tt.ToReal(in.bigTerm(a[1].(*Ptr))))
	})
	br("SetInt64", func(in *Interp, fr *frame, a []Value, _ *ssa.CallCommon) Value {
		return in.setRat(a[0].(*Ptr), in.tt.ToReal(in.signedToInt(a[1].(*Term))))
	})
	br("SetUint64", func(in *Interp, fr *frame, a []Value, _ *ssa.CallCommon) Value {
		return in.setRat(a[0].(*Ptr), in.tt.ToReal(in.tt.BV2Nat(a[1].(*Term))))
	})
	br("SetFrac", func(in *Interp, fr *frame, a []Value, _ *ssa.CallCommon) Value {
		x, y := in.tt.ToReal(in.bigTerm(a[1].(*Ptr))), in.tt.ToReal(in.bigTerm(a[2].(*Ptr)))
		if in.branch(in.tt.Eq(y, in.tt.Real(new(big.Rat)))) {
			in.goPanic("division by zero")
		}
		return in.setRat(a[0].(*Ptr), in.tt.RBin(ORDiv, x, y))
	})
	br("SetFloat64", func(in *Interp, fr *frame, a []Value, _ *ssa.CallCommon) Value {
		return in.setRat(a[0].(*Ptr), in.floatReal(a[1]))
	})
	br("Set", func(in *Interp, fr *frame, a []Value, _ *ssa.CallCommon) Value {
		return in.setRat(a[0].(*Ptr), in.ratAt(a[1].(*Ptr)))
	})
	rb := func(op Op) intrinsic {
		return func(in *Interp, fr *frame, a []Value, _ *ssa.CallCommon) Value {
			x, y := in.ratAt(a[1].(*Ptr)), in.ratAt(a[2].(*Ptr))
			if op == ORDiv {
				if in.branch(in.tt.Eq(y, in.tt.Real(new(big.Rat)))) {
					in.goPanic("division by zero")
				}
			}
			return in.setRat(a[0].(*Ptr), in.tt.RBin(op, x, y))
		}
	}
	br("Add", rb(OIAdd))
	br("Sub", rb(OISub))
	br("Mul", rb(OIMul))
	br("Quo", rb(ORDiv))
	br("Cmp", func(in *Interp, fr *frame, a []Value, _ *ssa.CallCommon) Value {
		x, y := in.ratAt(a[0].(*Ptr)), in.ratAt(a[1].(*Ptr))
		return in.tt.Ite(in.tt.RCmp(OILt, x, y), in.mkInt(-1), in.tt.Ite(in.tt.Eq(x, y), in.mkInt(0), in.mkInt(1)))
	})
	br("Sign", func(in *Interp, fr *frame, a []Value, _ *ssa.CallCommon) Value {
		x, z := in.ratAt(a[0].(*Ptr)), in.tt.Real(new(big.Rat))
		return in.tt.Ite(in.tt.RCmp(OILt, x, z), in.mkInt(-1), in.tt.Ite(in.tt.Eq(x, z), in.mkInt(0), in.mkInt(1)))
	})
	br("Float64", func(in *Interp, fr *frame, a []Value, _ *ssa.CallCommon) Value {
		x := in.ratAt(a[0].(*Ptr))
		f := in.roundF64(x)
		exact := in.tt.Eq(in.floatReal(f), x)
		return Tuple{f, exact}
	})
	reg("math/big.NewRat", func(in *Interp, fr *frame, a []Value, _ *ssa.CallCommon) Value {
		x, y := in.tt.ToReal(in.signedToInt(a[0].(*Term))), in.tt.ToReal(in.signedToInt(a[1].(*Term)))
		if in.branch(in.tt.Eq(y, in.tt.Real(new(big.Rat)))) {
			in.goPanic("division by zero")
		}
		return &Ptr{obj: in.newObj(nil, RatVal{in.tt.RBin(ORDiv, x, y)}, "bigrat")}
	})
	// math functions on symbolic floats (concrete arguments run the real library from source)
	mfloor := func(name string, f func(in I, t *Term) *Term, conc func(float64) float64) {
		reg("math."+name, func(in *Interp, fr *frame, a []Value, _ *ssa.CallCommon) Value {
			if x, ok := a[0].(float64); ok {
				return conc(x)
			}
			return in.mkFloat(f(in, a[0].(*SymFloat).t))
		})
	}
	mfloor("Floor", func(in I, t *Term) *Term { return in.tt.ToReal(in.tt.ToInt(t)) }, math.Floor)
	mfloor("Ceil", func(in I, t *Term) *Term {
		// ceil(x) = -floor(-x)
		z := in.tt.Real(new(big.Rat))
		return in.tt.RBin(OISub, z, in.tt.ToReal(in.tt.ToInt(in.tt.RBin(OISub, z, t))))
	}, math.Ceil)
	mfloor("Trunc", func(in I, t *Term) *Term { return in.tt.ToReal(in.truncInt(t)) }, math.Trunc)
}
