package main

import (
	"fmt"
	"go/token"
	"go/types"
	"math"
	"math/big"
	"os"
	"strings"
	"unicode/utf8"

	"golang.org/x/tools/go/ssa"
)

func basicOf(t types.Type) *types.Basic {
	b, _ := t.Underlying().(*types.Basic)
	return b
}

func (in *Interp) mkInt(v int64) *Term   { return in.tt.BV(64, uint64(v)) }
func (in *Interp) mkBool(b bool) *Term   { return in.tt.Bool(b) }
func (in *Interp) mkByte(b byte) *Term   { return in.tt.BV(8, uint64(b)) }
func (in *Interp) mkU64(v uint64) *Term  { return in.tt.BV(64, v) }
func (in *Interp) isTrue(t *Term) bool   { return t == in.tt.True }
func (in *Interp) isFalse(t *Term) bool  { return t == in.tt.False }
func (in *Interp) termOf(v Value) *Term  { return v.(*Term) }
func (in *Interp) zeroOf(t *Term) *Term  { return in.tt.BV(t.sort.W, 0) }
func (in *Interp) isZeroT(t *Term) *Term { return in.tt.Eq(t, in.zeroOf(t)) }

// ---- unary

func (in *Interp) unop(fr *frame, instr *ssa.UnOp, x Value) Value {
	switch instr.Op {
	case token.MUL:
		return in.load(x.(*Ptr))
	case token.NOT:
		return in.tt.Not(x.(*Term))
	case token.SUB:
		switch x := x.(type) {
		case *Term:
			return in.tt.BVNeg(x)
		case float64:
			return -x
		case *SymFloat:
			return in.mkFloat(in.tt.RBin(OISub, in.tt.Real(new(big.Rat)), x.t))
		case complex128:
			return -x
		}
	case token.XOR:
		return in.tt.BVNot(x.(*Term))
	case token.ARROW:
		ch := x.(*ChanV)
		if ch == nil || len(ch.buf) == 0 {
			panic(unsupported{"receive on empty channel (no scheduler)"})
		}
		v := ch.buf[0]
		ch.buf = ch.buf[1:]
		if instr.CommaOk {
			return Tuple{v, in.tt.True}
		}
		return v
	}
	panic(fmt.Sprintf("unop %v on %T", instr.Op, x))
}

// ---- binary

func (in *Interp) binop(op token.Token, xt types.Type, x, y Value, yt types.Type) Value {
	switch op {
	case token.EQL:
		return in.equalTerm(xt, x, y)
	case token.NEQ:
		return in.tt.Not(in.equalTerm(xt, x, y))
	}
	if _, ok := x.(*SymFloat); ok {
		return in.floatBinop(op, x, y)
	}
	if _, ok := y.(*SymFloat); ok {
		return in.floatBinop(op, x, y)
	}
	switch xv := x.(type) {
	case *Term:
		yv := y.(*Term)
		if xv.sort.K == SBool {
			switch op {
			case token.AND, token.LAND:
				return in.tt.And(xv, yv)
			case token.OR, token.LOR:
				return in.tt.Or(xv, yv)
			}
			panic("bool binop " + op.String())
		}
		b := basicOf(xt)
		signed := isSigned(b)
		tt := in.tt
		if in.opts.IntLimbs && xv.sort.W == 64 && !bothConst(xv, yv) && (op == token.ADD || op == token.SUB || op == token.MUL) {
			m := tt.Int(pow2(64))
			a, b := tt.BV2Nat(xv), tt.BV2Nat(yv)
			var r *Term
			switch op {
			case token.ADD:
				r = tt.IBin(OIAdd, a, b)
			case token.SUB:
				r = tt.IBin(OISub, a, b)
			default:
				r = tt.IBin(OIMul, a, b)
			}
			return tt.Int2BV(64, tt.IBin(OIMod, r, m))
		}
		switch op {
		case token.ADD:
			return tt.BVBin(OAdd, xv, yv)
		case token.SUB:
			return tt.BVBin(OSub, xv, yv)
		case token.MUL:
			return tt.BVBin(OMul, xv, yv)
		case token.QUO, token.REM:
			if in.branch(in.isZeroT(yv)) {
				in.goPanic("runtime error: integer divide by zero")
			}
			if signed {
				if op == token.QUO {
					return tt.BVBin(OSDiv, xv, yv)
				}
				return tt.BVBin(OSRem, xv, yv)
			}
			if op == token.QUO {
				return tt.BVBin(OUDiv, xv, yv)
			}
			return tt.BVBin(OURem, xv, yv)
		case token.AND:
			return tt.BVBin(OAnd, xv, yv)
		case token.OR:
			return tt.BVBin(OOr, xv, yv)
		case token.XOR:
			return tt.BVBin(OXor, xv, yv)
		case token.AND_NOT:
			return tt.BVBin(OAnd, xv, tt.BVNot(yv))
		case token.SHL, token.SHR:
			w := xv.sort.W
			yb := basicOf(yt)
			if isSigned(yb) {
				neg := tt.Cmp(OSlt, yv, in.zeroOf(yv))
				if in.branch(neg) {
					in.goPanic("runtime error: negative shift amount")
				}
			}
			// normalise shift count to width w with saturation
			var cnt *Term
			var over *Term = tt.False
			if yv.sort.W > w {
				over = tt.Cmp(OUle, tt.BV(yv.sort.W, uint64(w)), yv)
				cnt = tt.Extract(w-1, 0, yv)
			} else {
				cnt = tt.ZExt(yv, w)
			}
			var r, sat *Term
			switch {
			case op == token.SHL:
				r = tt.BVBin(OShl, xv, cnt)
				sat = tt.BV(w, 0)
			case signed:
				r = tt.BVBin(OAShr, xv, cnt)
				sat = tt.BVBin(OAShr, xv, tt.BV(w, uint64(w-1)))
			default:
				r = tt.BVBin(OLShr, xv, cnt)
				sat = tt.BV(w, 0)
			}
			return tt.Ite(over, sat, r)
		case token.LSS:
			if signed {
				return tt.Cmp(OSlt, xv, yv)
			}
			return tt.Cmp(OUlt, xv, yv)
		case token.LEQ:
			if signed {
				return tt.Cmp(OSle, xv, yv)
			}
			return tt.Cmp(OUle, xv, yv)
		case token.GTR:
			if signed {
				return tt.Cmp(OSlt, yv, xv)
			}
			return tt.Cmp(OUlt, yv, xv)
		case token.GEQ:
			if signed {
				return tt.Cmp(OSle, yv, xv)
			}
			return tt.Cmp(OUle, yv, xv)
		}
	case float64:
		yv := y.(float64)
		is32 := basicOf(xt) != nil && basicOf(xt).Kind() == types.Float32
		r32 := func(f float64) Value {
			if is32 {
				return float64(float32(f))
			}
			return f
		}
		switch op {
		case token.ADD:
			return r32(xv + yv)
		case token.SUB:
			return r32(xv - yv)
		case token.MUL:
			return r32(xv * yv)
		case token.QUO:
			return r32(xv / yv)
		case token.LSS:
			return in.mkBool(xv < yv)
		case token.LEQ:
			return in.mkBool(xv <= yv)
		case token.GTR:
			return in.mkBool(xv > yv)
		case token.GEQ:
			return in.mkBool(xv >= yv)
		}
	case complex128:
		yv := y.(complex128)
		switch op {
		case token.ADD:
			return xv + yv
		case token.SUB:
			return xv - yv
		case token.MUL:
			return xv * yv
		case token.QUO:
			return xv / yv
		}
	case string, *SymStr:
		if op == token.ADD {
			xs, xok := x.(string)
			ys, yok := y.(string)
			if xok && yok {
				return xs + ys
			}
			return in.mkStr(append(append([]*Term{}, in.strBytes(x)...), in.strBytes(y)...))
		}
		xs, xok := isConcreteStr(x)
		ys, yok := isConcreteStr(y)
		if xok && yok {
			switch op {
			case token.LSS:
				return in.mkBool(xs < ys)
			case token.LEQ:
				return in.mkBool(xs <= ys)
			case token.GTR:
				return in.mkBool(xs > ys)
			case token.GEQ:
				return in.mkBool(xs >= ys)
			}
		}
		lt := in.bytesLess(in.strBytes(x), in.strBytes(y))
		eq := in.bytesEqTerm(in.strBytes(x), in.strBytes(y))
		switch op {
		case token.LSS:
			return lt
		case token.LEQ:
			return in.tt.Or(lt, eq)
		case token.GTR:
			return in.tt.Not(in.tt.Or(lt, eq))
		case token.GEQ:
			return in.tt.Not(lt)
		}
	}
	panic(fmt.Sprintf("binop %v on %T, %T", op, x, y))
}

func (in *Interp) bytesEqTerm(a, b []*Term) *Term {
	if len(a) != len(b) {
		return in.tt.False
	}
	if len(a) >= 28 {
		if r, ok := in.hashEq(a, b); ok {
			return r
		}
	}
	r := in.tt.True
	for i := range a {
		r = in.tt.And(r, in.tt.Eq(a[i], b[i]))
		if r == in.tt.False {
			return r
		}
	}
	return r
}

// bytesLess: lexicographic a < b
func (in *Interp) bytesLess(a, b []*Term) *Term {
	n := len(a)
	if len(b) < n {
		n = len(b)
	}
	r := in.mkBool(len(a) < len(b))
	for i := n - 1; i >= 0; i-- {
		r = in.tt.Ite(in.tt.Cmp(OUlt, a[i], b[i]), in.tt.True, in.tt.Ite(in.tt.Cmp(OUlt, b[i], a[i]), in.tt.False, r))
	}
	return r
}

// equalTerm returns the Bool term "x == y" for comparable values of static type t.
func (in *Interp) equalTerm(t types.Type, x, y Value) *Term {
	switch xv := x.(type) {
	case *Term:
		yv, ok := y.(*Term)
		if !ok {
			return in.tt.False
		}
		if xv.sort != yv.sort {
			return in.tt.False
		}
		return in.tt.Eq(xv, yv)
	case float64:
		if _, isSym := y.(*SymFloat); isSym {
			return in.tt.Eq(in.floatReal(x), in.floatReal(y))
		}
		yv, ok := y.(float64)
		return in.mkBool(ok && xv == yv)
	case *SymFloat:
		return in.tt.Eq(in.floatReal(x), in.floatReal(y))
	case complex128:
		yv, ok := y.(complex128)
		return in.mkBool(ok && xv == yv)
	case string:
		if ys, ok := y.(string); ok {
			return in.mkBool(xv == ys)
		}
		if _, ok := y.(*SymStr); ok {
			return in.bytesEqTerm(in.strBytes(x), in.strBytes(y))
		}
		return in.tt.False
	case *SymStr:
		switch y.(type) {
		case string, *SymStr:
			return in.bytesEqTerm(in.strBytes(x), in.strBytes(y))
		}
		return in.tt.False
	case *Ptr:
		yv, ok := y.(*Ptr)
		if !ok {
			return in.tt.False
		}
		if xv != nil && yv != nil && (xv.sym != nil || yv.sym != nil) {
			panic(unsupported{"comparison of symbolic-index pointers"})
		}
		return in.mkBool(ptrEq(xv, yv))
	case *Struct:
		yv := y.(*Struct)
		var st *types.Struct
		if t != nil {
			st, _ = t.Underlying().(*types.Struct)
		}
		r := in.tt.True
		for i := range xv.F {
			if st != nil && st.Field(i).Name() == "_" {
				continue
			}
			var ft types.Type
			if st != nil {
				ft = st.Field(i).Type()
			}
			r = in.tt.And(r, in.equalTerm(ft, xv.F[i], yv.F[i]))
			if r == in.tt.False {
				return r
			}
		}
		return r
	case *Array:
		yv := y.(*Array)
		if len(xv.E) >= 28 && len(xv.E) == len(yv.E) {
			if _, isT := xv.E[0].(*Term); isT {
				if _, isT2 := yv.E[0].(*Term); isT2 {
					xs, ys := make([]*Term, len(xv.E)), make([]*Term, len(yv.E))
					okAll := true
					for i := range xv.E {
						a, ok1 := xv.E[i].(*Term)
						b, ok2 := yv.E[i].(*Term)
						if !ok1 || !ok2 {
							okAll = false
							break
						}
						xs[i], ys[i] = a, b
					}
					if okAll {
						if r, ok := in.hashEq(xs, ys); ok {
							return r
						}
					}
				}
			}
		}
		var et types.Type
		if t != nil {
			if at, ok := t.Underlying().(*types.Array); ok {
				et = at.Elem()
			}
		}
		r := in.tt.True
		for i := range xv.E {
			r = in.tt.And(r, in.equalTerm(et, xv.E[i], yv.E[i]))
			if r == in.tt.False {
				return r
			}
		}
		return r
	case Iface:
		yv, ok := y.(Iface)
		if !ok {
			return in.tt.False
		}
		if xv.t == nil || yv.t == nil {
			return in.mkBool(xv.t == nil && yv.t == nil)
		}
		if !types.Identical(xv.t, yv.t) {
			return in.tt.False
		}
		if !types.Comparable(xv.t) {
			in.goPanic("runtime error: comparing uncomparable type " + xv.t.String())
		}
		return in.equalTerm(xv.t, xv.v, yv.v)
	case Slice:
		yv := y.(Slice)
		// only comparison with nil is legal
		return in.mkBool(xv.arr == nil && yv.arr == nil)
	case *MapV:
		yv := y.(*MapV)
		return in.mkBool(xv == yv)
	case *ChanV:
		yv := y.(*ChanV)
		return in.mkBool(xv == yv)
	case *ssa.Function:
		switch yv := y.(type) {
		case *ssa.Function:
			return in.mkBool(xv == yv)
		case *Closure:
			return in.mkBool(xv == nil && yv == nil)
		case *BoundIntrinsic:
			return in.mkBool(xv == nil && yv == nil)
		}
	case *Closure:
		switch yv := y.(type) {
		case *ssa.Function:
			return in.mkBool(xv == nil && yv == nil)
		case *Closure:
			return in.mkBool(xv == yv)
		}
	case *BoundIntrinsic:
		if yv, ok := y.(*ssa.Function); ok {
			return in.mkBool(xv == nil && yv == nil)
		}
	case RType:
		yv, ok := y.(RType)
		return in.mkBool(ok && types.Identical(xv.t, yv.t))
	case StubObj:
		yv, ok := y.(StubObj)
		return in.mkBool(ok && xv == yv)
	case BigVal:
		panic(unsupported{"== on big.Int struct values"})
	case nil:
		return in.mkBool(y == nil)
	}
	panic(fmt.Sprintf("equalTerm: unsupported %T vs %T", x, y))
}

// ---- conversions

func (in *Interp) conv(tdst, tsrc types.Type, x Value) Value {
	ud := tdst.Underlying()
	us := tsrc.Underlying()
	// unsafe.Pointer <-> pointer: keep pointer
	if b, ok := ud.(*types.Basic); ok && b.Kind() == types.UnsafePointer {
		if p, ok := x.(*Ptr); ok {
			return p
		}
		panic(unsupported{"uintptr to unsafe.Pointer"})
	}
	if b, ok := us.(*types.Basic); ok && b.Kind() == types.UnsafePointer {
		if _, ok := ud.(*types.Pointer); ok {
			return x
		}
		panic(unsupported{"unsafe.Pointer to " + tdst.String()})
	}
	switch sv := x.(type) {
	case *Term:
		sb := basicOf(tsrc)
		db, isBasic := ud.(*types.Basic)
		if !isBasic {
			break
		}
		switch {
		case db.Info()&types.IsInteger != 0:
			w := in.intWidth(db)
			if isSigned(sb) {
				return in.tt.SExt(sv, w)
			}
			return in.tt.ZExt(sv, w)
		case db.Info()&types.IsFloat != 0:
			if !sv.IsConst() {
				if db.Kind() == types.Float32 {
					panic(unsupported{"symbolic int to float32"})
				}
				var i *Term
				if isSigned(sb) {
					i = in.signedToInt(sv)
				} else {
					i = in.tt.BV2Nat(sv)
				}
				return in.intToFloat(i)
			}
			var f float64
			if isSigned(sb) {
				f = float64(sext64(sv.cv, sv.sort.W))
			} else {
				f = float64(sv.cv)
			}
			if db.Kind() == types.Float32 {
				f = float64(float32(f))
			}
			return f
		case db.Info()&types.IsString != 0:
			if !sv.IsConst() {
				panic(unsupported{"symbolic rune to string"})
			}
			return string(rune(sext64(sv.cv, sv.sort.W)))
		}
	case *SymFloat:
		db, isBasic := ud.(*types.Basic)
		if !isBasic {
			break
		}
		switch {
		case db.Info()&types.IsFloat != 0:
			if db.Kind() == types.Float32 {
				panic(unsupported{"symbolic float64 to float32"})
			}
			return sv
		case db.Info()&types.IsInteger != 0:
			w := in.intWidth(db)
			i := in.truncInt(sv.t)
			// Go leaves out-of-range float->int conversions implementation-defined: require the range
			var lo, hi *big.Int
			if isSigned(db) {
				lo, hi = new(big.Int).Neg(pow2(w-1)), pow2(w-1)
			} else {
				lo, hi = big.NewInt(0), pow2(w)
			}
			inRange := in.tt.And(in.tt.ICmp(OILe, in.tt.Int(lo), i), in.tt.ICmp(OILt, i, in.tt.Int(hi)))
			if !in.branch(inRange) {
				// implementation-defined result: an arbitrary value of the target type
				in.P.nondet = true
				in.stubsUsed["float to integer conversion out of range: arbitrary result (implementation-defined in Go)"]++
				return in.tt.Var(in.freshName("$f2i"), BVSort(w))
			}
			return in.tt.Int2BV(w, i)
		}
	case float64:
		db, isBasic := ud.(*types.Basic)
		if !isBasic {
			break
		}
		switch {
		case db.Info()&types.IsFloat != 0:
			if db.Kind() == types.Float32 {
				return float64(float32(sv))
			}
			return sv
		case db.Info()&types.IsInteger != 0:
			w := in.intWidth(db)
			if isSigned(db) {
				return in.tt.BV(w, uint64(int64(sv)))
			}
			if sv < 0 {
				return in.tt.BV(w, uint64(int64(sv)))
			}
			return in.tt.BV(w, uint64(sv))
		}
	case string, *SymStr:
		switch d := ud.(type) {
		case *types.Basic:
			if d.Info()&types.IsString != 0 {
				return x
			}
		case *types.Slice:
			eb := basicOf(d.Elem())
			if eb.Kind() == types.Uint8 {
				return in.mkByteSlice(in.strBytes(x))
			}
			if eb.Kind() == types.Int32 {
				s, ok := isConcreteStr(x)
				if !ok {
					panic(unsupported{"symbolic string to []rune"})
				}
				var es []Value
				for _, r := range s {
					es = append(es, in.tt.BV(32, uint64(r)))
				}
				return in.mkSlice(d.Elem(), es)
			}
		}
	case Slice:
		switch d := ud.(type) {
		case *types.Basic:
			if d.Info()&types.IsString != 0 {
				st := us.(*types.Slice)
				eb := basicOf(st.Elem())
				if eb.Kind() == types.Uint8 {
					return in.mkStr(in.sliceTerms(sv))
				}
				if eb.Kind() == types.Int32 {
					var sb strings.Builder
					for _, e := range in.sliceTerms(sv) {
						if !e.IsConst() {
							panic(unsupported{"symbolic []rune to string"})
						}
						sb.WriteRune(rune(e.cv))
					}
					return sb.String()
				}
			}
		case *types.Slice:
			return x
		case *types.Array:
			// slice to array conversion (go1.20)
			n := int(d.Len())
			if sv.ln < n {
				in.goPanic("runtime error: cannot convert slice to array: length too short")
			}
			a := &Array{E: make([]Value, n)}
			copy(a.E, in.sliceElems(sv)[:n])
			return copyVal(a)
		case *types.Pointer:
			n := int(d.Elem().Underlying().(*types.Array).Len())
			if sv.ln < n {
				in.goPanic("runtime error: cannot convert slice to array pointer")
			}
			if sv.off == 0 && sv.arr != nil && len(sv.arr.v.(*Array).E) == n {
				return &Ptr{obj: sv.arr}
			}
			panic(unsupported{"slice to array pointer of sub-slice"})
		}
	case complex128:
		return x
	case *Ptr:
		if _, ok := ud.(*types.Pointer); ok {
			return x
		}
	}
	panic(unsupported{fmt.Sprintf("conv %v -> %v (%T)", tsrc, tdst, x)})
}

// ---- type assertions

func (in *Interp) implements(dyn types.Type, itf *types.Interface) bool {
	if itf.NumMethods() == 0 {
		return true
	}
	m, _ := types.MissingMethod(dyn, itf, true)
	return m == nil
}

func (in *Interp) typeAssert(instr *ssa.TypeAssert, x Value) Value {
	itf := x.(Iface)
	var ok bool
	var v Value
	if idst, isItf := instr.AssertedType.Underlying().(*types.Interface); isItf {
		if itf.t != nil {
			if _, isR := itf.v.(RType); isR {
				ok = idst.NumMethods() == 0 || isNamed(instr.AssertedType, "reflect", "Type")
			} else if _, isS := itf.v.(StubObj); isS {
				ok = true
			} else {
				ok = in.implements(itf.t, idst)
			}
		}
		v = itf
	} else {
		ok = itf.t != nil && types.Identical(itf.t, instr.AssertedType)
		if ok {
			v = itf.v
		}
	}
	if instr.CommaOk {
		if !ok {
			if _, isItf := instr.AssertedType.Underlying().(*types.Interface); isItf {
				v = Iface{}
			} else {
				v = in.zero(instr.AssertedType)
			}
		}
		return Tuple{v, in.mkBool(ok)}
	}
	if !ok {
		var dyn string = "nil"
		if itf.t != nil {
			dyn = itf.t.String()
		}
		in.goPanic(fmt.Sprintf("interface conversion: interface is %s, not %s", dyn, instr.AssertedType))
	}
	return v
}

// ---- slicing and indexing

// boundsInt returns a concrete int for an index used in slicing; symbolic values are
// range-checked against [lo,hi] (panic outcome forked) and then enumerated.
func (in *Interp) boundedIndex(v Value, lo, hi int64, panicMsg string) int64 {
	t := v.(*Term)
	if t.IsConst() {
		c := sext64(t.cv, t.sort.W)
		if c < lo || c > hi {
			in.goPanic(panicMsg)
		}
		return c
	}
	w := t.sort.W
	out := in.tt.Or(in.tt.Cmp(OSlt, t, in.tt.BV(w, uint64(lo))), in.tt.Cmp(OSlt, in.tt.BV(w, uint64(hi)), t))
	if in.branch(out) {
		in.goPanic(panicMsg)
	}
	return in.decideValue(t, "index")
}

func (in *Interp) sliceOp(fr *frame, instr *ssa.Slice) Value {
	x := fr.get(instr.X)
	var ln, cp int
	switch xv := x.(type) {
	case Slice:
		ln, cp = xv.ln, xv.cp
	case string:
		ln, cp = len(xv), len(xv)
	case *SymStr:
		ln, cp = len(xv.B), len(xv.B)
	case *Ptr:
		if IsNilPtr(xv) {
			in.goPanic("runtime error: invalid memory address or nil pointer dereference")
		}
		a := walk(xv.obj.v, xv.path).(*Array)
		ln, cp = len(a.E), len(a.E)
	default:
		panic(fmt.Sprintf("slice of %T", x))
	}
	lo, hi, mx := int64(0), int64(ln), int64(cp)
	msg := "runtime error: slice bounds out of range"
	if instr.Max != nil {
		mx = in.boundedIndex(fr.get(instr.Max), 0, int64(cp), msg)
	}
	if instr.High != nil {
		hi = in.boundedIndex(fr.get(instr.High), 0, mx, msg)
	}
	if instr.Low != nil {
		lo = in.boundedIndex(fr.get(instr.Low), 0, hi, msg)
	}
	switch xv := x.(type) {
	case Slice:
		if xv.arr == nil {
			return Slice{}
		}
		return Slice{arr: xv.arr, off: xv.off + int(lo), ln: int(hi - lo), cp: int(mx - lo)}
	case string:
		return xv[lo:hi]
	case *SymStr:
		return in.mkStr(xv.B[lo:hi])
	case *Ptr:
		if len(xv.path) != 0 {
			// array embedded in another object: make the array addressable as a slice by a view object
			return in.viewSlice(xv, int(lo), int(hi), int(mx))
		}
		return Slice{arr: xv.obj, off: int(lo), ln: int(hi - lo), cp: int(mx - lo)}
	}
	panic("unreachable")
}

// viewSlice: slicing an array that is a field of a larger object. Slices need an *Obj whose
// value is the *Array itself; since nested values are stored by reference inside the parent
// container (the *Array pointer is shared, not copied, until load), a view object aliasing
// the same *Array is sound for in-place element writes.
func (in *Interp) viewSlice(p *Ptr, lo, hi, mx int) Value {
	a := walk(p.obj.v, p.path).(*Array)
	view := in.viewObj(p, a)
	return Slice{arr: view, off: lo, ln: hi - lo, cp: mx - lo}
}

func (in *Interp) viewObj(p *Ptr, a *Array) *Obj {
	if in.P != nil {
		if v, ok := in.P.views[a]; ok {
			return v
		}
	}
	in.objCount++
	view := &Obj{v: a, epoch: p.obj.epoch, typ: nil, id: in.objCount, tag: "view"}
	if in.P != nil {
		in.P.views[a] = view
	}
	return view
}

func (in *Interp) indexAddr(fr *frame, instr *ssa.IndexAddr) Value {
	x := fr.get(instr.X)
	idx := fr.get(instr.Index).(*Term)
	if idx.sort.W != 64 {
		if isSigned(basicOf(instr.Index.Type())) {
			idx = in.tt.SExt(idx, 64)
		} else {
			idx = in.tt.ZExt(idx, 64)
		}
	}
	var base *Ptr
	var off, ln int
	switch xv := x.(type) {
	case Slice:
		if xv.arr == nil {
			in.goPanic("runtime error: index out of range [slice is nil/empty]")
		}
		base, off, ln = &Ptr{obj: xv.arr}, xv.off, xv.ln
	case *Ptr:
		if IsNilPtr(xv) {
			in.goPanic("runtime error: invalid memory address or nil pointer dereference")
		}
		if xv.sym != nil {
			xv = in.concretizePtr(xv)
		}
		a := walk(xv.obj.v, xv.path).(*Array)
		base, off, ln = xv, 0, len(a.E)
	default:
		panic(fmt.Sprintf("IndexAddr on %T", x))
	}
	if idx.IsConst() {
		i := int64(idx.cv)
		if i < 0 || i >= int64(ln) {
			in.goPanic(fmt.Sprintf("runtime error: index out of range [%d] with length %d", i, ln))
		}
		return base.sub(off + int(i))
	}
	out := in.tt.Cmp(OUle, in.mkInt(int64(ln)), idx) // unsigned compare catches negatives
	if in.branch(out) {
		in.goPanic(fmt.Sprintf("runtime error: index out of range [symbolic] with length %d", ln))
	}
	// symbolic in-range index
	arr := walk(base.obj.v, base.path).(*Array)
	scalar := true
	for i := off; i < off+ln; i++ {
		if _, ok := arr.E[i].(*Term); !ok {
			scalar = false
			break
		}
	}
	if scalar && ln > 1 {
		sidx := idx
		if off != 0 {
			sidx = in.tt.BVBin(OAdd, idx, in.mkInt(int64(off)))
		}
		return &Ptr{obj: base.obj, path: base.path, sym: sidx, n: off + ln}
	}
	i := in.decideValue(idx, "index")
	return base.sub(off + int(i))
}

func (in *Interp) concretizePtr(p *Ptr) *Ptr {
	i := in.decideValue(p.sym, "pointer index")
	return (&Ptr{obj: p.obj, path: p.path}).sub(int(i))
}

func (in *Interp) indexOp(fr *frame, instr *ssa.Index) Value {
	x := fr.get(instr.X)
	idx := fr.get(instr.Index).(*Term)
	if idx.sort.W != 64 {
		if isSigned(basicOf(instr.Index.Type())) {
			idx = in.tt.SExt(idx, 64)
		} else {
			idx = in.tt.ZExt(idx, 64)
		}
	}
	var es []Value
	switch xv := x.(type) {
	case *Array:
		es = xv.E
	case string:
		if idx.IsConst() {
			i := int64(idx.cv)
			if i < 0 || i >= int64(len(xv)) {
				in.goPanic(fmt.Sprintf("runtime error: index out of range [%d] with length %d", i, len(xv)))
			}
			return in.mkByte(xv[i])
		}
		for _, b := range in.strBytes(xv) {
			es = append(es, b)
		}
	case *SymStr:
		for _, b := range xv.B {
			es = append(es, b)
		}
	default:
		panic(fmt.Sprintf("Index on %T", x))
	}
	if idx.IsConst() {
		i := int64(idx.cv)
		if i < 0 || i >= int64(len(es)) {
			in.goPanic(fmt.Sprintf("runtime error: index out of range [%d] with length %d", i, len(es)))
		}
		return copyVal(es[i])
	}
	out := in.tt.Cmp(OUle, in.mkInt(int64(len(es))), idx)
	if in.branch(out) {
		in.goPanic(fmt.Sprintf("runtime error: index out of range [symbolic] with length %d", len(es)))
	}
	if len(es) == 1 {
		return copyVal(es[0])
	}
	if _, ok := es[0].(*Term); ok {
		return in.selectElem(es, idx)
	}
	i := in.decideValue(idx, "index")
	return copyVal(es[i])
}

// ---- maps

func (in *Interp) mapFind(m *MapV, k Value) int {
	if m == nil {
		return -1
	}
	hk, hashable := hashableKey(k)
	if hashable {
		if i, ok := m.idx[hk]; ok {
			return i
		}
	}
	if m.nsym == 0 && hashable {
		return -1
	}
	for i := range m.entries {
		e := &m.entries[i]
		if !e.live {
			continue
		}
		if hashable && e.hk != nil {
			continue
		}
		eq := in.equalTerm(m.kt, e.k, k)
		if in.branch(eq) {
			return i
		}
	}
	return -1
}

func (in *Interp) mapSet(m *MapV, k, v Value) {
	i := in.mapFind(m, k)
	in.journalMap(m)
	if i >= 0 {
		m.entries[i].v = copyVal(v)
		return
	}
	hk, hashable := hashableKey(k)
	e := mapEntry{k: copyVal(k), v: copyVal(v), live: true}
	if hashable {
		e.hk = hk
		m.idx[hk] = len(m.entries)
	} else {
		m.nsym++
	}
	m.entries = append(m.entries, e)
	m.n++
}

func (in *Interp) mapDelete(m *MapV, k Value) {
	if m == nil {
		return
	}
	i := in.mapFind(m, k)
	if i < 0 {
		return
	}
	in.journalMap(m)
	e := &m.entries[i]
	e.live = false
	if e.hk != nil {
		delete(m.idx, e.hk)
	} else {
		m.nsym--
	}
	m.n--
}

func (in *Interp) lookup(fr *frame, instr *ssa.Lookup) Value {
	x := fr.get(instr.X)
	switch xv := x.(type) {
	case *MapV:
		k := fr.get(instr.Index)
		i := in.mapFind(xv, k)
		var v Value
		if i >= 0 {
			v = copyVal(xv.entries[i].v)
		} else {
			v = in.zero(instr.X.Type().Underlying().(*types.Map).Elem())
		}
		if instr.CommaOk {
			return Tuple{v, in.mkBool(i >= 0)}
		}
		return v
	case string, *SymStr:
		bs := in.strBytes(x)
		idx := fr.get(instr.Index).(*Term)
		if idx.IsConst() {
			i := sext64(idx.cv, idx.sort.W)
			if i < 0 || i >= int64(len(bs)) {
				in.goPanic(fmt.Sprintf("runtime error: index out of range [%d] with length %d", i, len(bs)))
			}
			return bs[i]
		}
		idx = in.tt.SExt(idx, 64)
		out := in.tt.Cmp(OUle, in.mkInt(int64(len(bs))), idx)
		if in.branch(out) {
			in.goPanic("runtime error: index out of range (string)")
		}
		es := make([]Value, len(bs))
		for i, b := range bs {
			es[i] = b
		}
		return in.selectElem(es, idx)
	}
	panic(fmt.Sprintf("lookup on %T", x))
}

// ---- range iterators

type iterator interface {
	next(in *Interp) Value
}

type mapIter struct {
	m      *MapV
	order  []int
	pos    int
	kt, vt types.Type
}

func (it *mapIter) next(in *Interp) Value {
	for it.pos < len(it.order) {
		if in.P != nil && in.P.symMapOrder {
			// choose any remaining live entry
			var rem []int
			for j := it.pos; j < len(it.order); j++ {
				if it.m.entries[it.order[j]].live {
					rem = append(rem, j)
				}
			}
			if len(rem) == 0 {
				break
			}
			c := 0
			if len(rem) > 1 {
				c = in.decideN(len(rem), "maporder")
				in.P.usedMapOrder = true
			}
			j := rem[c]
			it.order[it.pos], it.order[j] = it.order[j], it.order[it.pos]
		}
		i := it.order[it.pos]
		it.pos++
		e := it.m.entries[i]
		if !e.live {
			continue
		}
		return Tuple{in.tt.True, copyVal(e.k), copyVal(e.v)}
	}
	return Tuple{in.tt.False, in.zero(it.kt), in.zero(it.vt)}
}

type strIter struct {
	s   string
	pos int
}

func (it *strIter) next(in *Interp) Value {
	if it.pos >= len(it.s) {
		return Tuple{in.tt.False, in.mkInt(0), in.tt.BV(32, 0)}
	}
	r, n := utf8.DecodeRuneInString(it.s[it.pos:])
	p := it.pos
	it.pos += n
	return Tuple{in.tt.True, in.mkInt(int64(p)), in.tt.BV(32, uint64(r))}
}

func (in *Interp) rangeIter(x Value, t types.Type) Value {
	switch xv := x.(type) {
	case *MapV:
		mt := t.Underlying().(*types.Map)
		it := &mapIter{m: xv, kt: mt.Key(), vt: mt.Elem()}
		if xv != nil {
			for i, e := range xv.entries {
				if e.live {
					it.order = append(it.order, i)
				}
			}
		}
		return it
	case string:
		return &strIter{s: xv}
	case *SymStr:
		s, ok := isConcreteStr(xv)
		if !ok {
			// treat bytes < 0x80 as assumption? unsupported for now
			panic(unsupported{"range over symbolic string"})
		}
		return &strIter{s: s}
	}
	panic(fmt.Sprintf("range over %T", x))
}

// ---- builtins

func (in *Interp) callBuiltin(fr *frame, b *ssa.Builtin, args []Value, site *ssa.CallCommon) Value {
	switch b.Name() {
	case "append":
		s := args[0].(Slice)
		var add []Value
		switch t := args[1].(type) {
		case Slice:
			add = in.sliceElems(t)
		case string, *SymStr:
			for _, x := range in.strBytes(t) {
				add = append(add, x)
			}
		}
		if len(add) == 0 {
			return s
		}
		if s.arr != nil && s.ln+len(add) <= s.cp {
			arr := s.arr.v.(*Array)
			for i, v := range add {
				k := s.off + s.ln + i
				in.journal(s.arr, []int{k}, arr.E[k])
				arr.E[k] = copyVal(v)
			}
			s.ln += len(add)
			return s
		}
		ncap := (s.ln + len(add))
		if ncap < 2*s.cp {
			ncap = 2 * s.cp
		}
		es := make([]Value, ncap)
		old := in.sliceElems(s)
		for i, v := range old {
			es[i] = copyVal(v)
		}
		for i, v := range add {
			es[len(old)+i] = copyVal(v)
		}
		var et types.Type
		if site != nil {
			et = site.Args[0].Type().Underlying().(*types.Slice).Elem()
		} else if s.arr != nil && s.arr.typ != nil {
			et = s.arr.typ.(*types.Array).Elem()
		}
		if ncap > len(old)+len(add) {
			if et == nil {
				panic(unsupported{"append without element type"})
			}
			z := in.zero(et)
			for i := len(old) + len(add); i < ncap; i++ {
				es[i] = copyVal(z)
			}
		}
		ns := in.mkSlice(et, es)
		ns.ln = len(old) + len(add)
		return ns
	case "copy":
		dst := args[0].(Slice)
		var src []Value
		switch t := args[1].(type) {
		case Slice:
			src = in.sliceElems(t)
		case string, *SymStr:
			for _, x := range in.strBytes(t) {
				src = append(src, x)
			}
		}
		n := dst.ln
		if len(src) < n {
			n = len(src)
		}
		if n > 0 {
			tmp := make([]Value, n)
			for i := 0; i < n; i++ {
				tmp[i] = copyVal(src[i])
			}
			arr := dst.arr.v.(*Array)
			for i := 0; i < n; i++ {
				k := dst.off + i
				in.journal(dst.arr, []int{k}, arr.E[k])
				arr.E[k] = tmp[i]
			}
		}
		return in.mkInt(int64(n))
	case "close":
		return nil
	case "delete":
		in.mapDelete(args[0].(*MapV), args[1])
		return nil
	case "print", "println":
		if in.opts.Verbose > 0 {
			for _, a := range args {
				fmt.Fprint(os.Stderr, in.show(a), " ")
			}
			fmt.Fprintln(os.Stderr)
		}
		return nil
	case "len":
		switch x := args[0].(type) {
		case string:
			return in.mkInt(int64(len(x)))
		case *SymStr:
			return in.mkInt(int64(len(x.B)))
		case Slice:
			return in.mkInt(int64(x.ln))
		case *MapV:
			if x == nil {
				return in.mkInt(0)
			}
			return in.mkInt(int64(x.n))
		case *ChanV:
			if x == nil {
				return in.mkInt(0)
			}
			return in.mkInt(int64(len(x.buf)))
		case *Array:
			return in.mkInt(int64(len(x.E)))
		case *Ptr:
			a := walk(x.obj.v, x.path).(*Array)
			return in.mkInt(int64(len(a.E)))
		}
	case "cap":
		switch x := args[0].(type) {
		case Slice:
			return in.mkInt(int64(x.cp))
		case *ChanV:
			return in.mkInt(int64(x.cap))
		case *Array:
			return in.mkInt(int64(len(x.E)))
		case *Ptr:
			a := walk(x.obj.v, x.path).(*Array)
			return in.mkInt(int64(len(a.E)))
		}
	case "min", "max":
		r := args[0]
		for _, a := range args[1:] {
			switch x := r.(type) {
			case *Term:
				y := a.(*Term)
				var lt *Term
				if site != nil && isSigned(basicOf(site.Args[0].Type())) {
					lt = in.tt.Cmp(OSlt, x, y)
				} else {
					lt = in.tt.Cmp(OUlt, x, y)
				}
				if b.Name() == "min" {
					r = in.tt.Ite(lt, x, y)
				} else {
					r = in.tt.Ite(lt, y, x)
				}
			case float64:
				if b.Name() == "min" {
					r = math.Min(x, a.(float64))
				} else {
					r = math.Max(x, a.(float64))
				}
			default:
				panic(unsupported{"min/max on " + fmt.Sprintf("%T", r)})
			}
		}
		return r
	case "recover":
		return in.doRecover(fr)
	case "ssa:deferstack":
		return nil
	case "String": // unsafe.String(ptr *byte, len)
		p := args[0].(*Ptr)
		n := in.argInt(args[1])
		if n == 0 {
			return ""
		}
		if IsNilPtr(p) || len(p.path) == 0 {
			panic(unsupported{"unsafe.String of non-array pointer"})
		}
		arr := walk(p.obj.v, p.path[:len(p.path)-1]).(*Array)
		i0 := p.path[len(p.path)-1]
		bs := make([]*Term, n)
		for i := 0; i < n; i++ {
			bs[i] = arr.E[i0+i].(*Term)
		}
		return in.mkStr(bs)
	case "StringData": // unsafe.StringData(s) *byte
		bs := in.strBytes(args[0])
		if len(bs) == 0 {
			return (*Ptr)(nil)
		}
		sl := in.mkByteSlice(bs)
		return (&Ptr{obj: sl.arr}).sub(0)
	case "SliceData":
		sl := args[0].(Slice)
		if sl.arr == nil {
			return (*Ptr)(nil)
		}
		return (&Ptr{obj: sl.arr}).sub(sl.off)
	case "ssa:wrapnilchk":
		if p, ok := args[0].(*Ptr); ok && IsNilPtr(p) {
			in.goPanic("value method called using nil pointer")
		}
		return args[0]
	case "clear":
		switch x := args[0].(type) {
		case *MapV:
			if x != nil {
				in.journalMap(x)
				x.entries = nil
				x.idx = map[interface{}]int{}
				x.n = 0
				x.nsym = 0
			}
		case Slice:
			if x.arr != nil {
				et := x.arr.typ.(*types.Array).Elem()
				arr := x.arr.v.(*Array)
				for i := 0; i < x.ln; i++ {
					k := x.off + i
					in.journal(x.arr, []int{k}, arr.E[k])
					arr.E[k] = in.zero(et)
				}
			}
		}
		return nil
	}
	panic(unsupported{"builtin " + b.Name()})
}

func (in *Interp) doRecover(fr *frame) Value {
	// fr is the frame calling recover(); it must be a deferred function called by the
	// panicking frame.
	if fr != nil && fr.caller != nil && fr.caller.panicking {
		c := fr.caller
		c.panicking = false
		tp := c.panicVal.(targetPanic)
		c.panicVal = nil
		if in.P != nil {
			in.P.recovered++
		}
		return tp.v
	}
	return Iface{}
}

func (in *Interp) show(v Value) string {
	switch x := v.(type) {
	case *Term:
		return x.String()
	case string:
		return x
	case Iface:
		if x.t == nil {
			return "<nil>"
		}
		return fmt.Sprintf("(%v)%s", x.t, in.show(x.v))
	}
	return fmt.Sprintf("%T", v)
}
