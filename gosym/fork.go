package main

// Path exploration: decision prefixes, re-execution, work list, parallel workers.

import (
	"fmt"
	"math/big"
	"os"
	"runtime/debug"
	"sort"
	"strings"
	"sync"
	"time"

	"golang.org/x/tools/go/ssa"
)

type Options struct {
	MaxSteps      int
	MaxDepth      int
	MaxAlloc      int
	MaxConcretize int
	MaxPaths      int
	Verbose       int
	Trace         bool
	SolverKind    string
	TimeoutMs     int
	Workers       int
	Thorough      bool
	SkipInit      map[string]bool
	Samples       int // number of paths to sample for translator validation
	Seed          int64
	SolverLog     string
	Deadline      time.Time
	MaxBigBytes   int
	MaxDecDigits  int
	BigBitopWidth int
	IntLimbs      bool
	AllocSlack    int
	MaxInitSteps  int
	Fallbacks     []string
}

func (o *Options) skipInit(path string) bool { return o.SkipInit[path] }

type Decision struct {
	N int   // chosen alternative
	V int64 // chosen concrete value (decideValue)
	K byte  // 'b' branch, 'n' n-way, 'v' value
}

type inputRec struct {
	Name string
	Kind string // bytes, u8.., bool, big, choice, len
	Vars []*Term
	Conc *big.Int // for concrete inputs (choice/len)
}

type obsRec struct {
	Label string
	Kind  string
	Terms []*Term
	Conc  string
}

type PathState struct {
	prefix      []Decision
	pos         int
	decisions   []Decision
	pc          []*Term
	steps       int
	curFrame    *frame
	allocs      []int
	views       map[*Array]*Obj
	symMapOrder bool
	fresh       map[string]int
	inputs      []inputRec
	obs         []obsRec
	recovered   int
	reached     map[string]bool
	checksOK    int
	checksConst int
	unknowns    int
	branchesSym int
	notes       []string

	allocLimit   int
	allocLimitOn bool

	hashBufs map[*Obj]*[]*Term
	wire     map[int]*wireEntry
	jsonTab  map[string]*wireEntry
	ldb      map[string]map[string]Value

	bnMsgs  [][]*Term // bn256 model: hashed messages (one G1 basis element each)
	bnTok   map[string]int
	bnTokV  []GVal
	bnFresh int

	secpSigs []*secpSig // secp256k1 model: signatures issued on this path

	usedMapOrder bool
	nondet       bool // the path uses an over-approximating stub: no sample prediction

	known map[*Term]bool   // atoms asserted on this path
	lo    map[*Term]uint64 // unsigned lower bounds of BV terms (w<=64)
	hi    map[*Term]uint64 // unsigned upper bounds
}

type Violation struct {
	Harness  string
	Label    string
	Detail   string
	MapOrder bool                // found on a path with symbolic map iteration order
	Alt      []map[string]string // further models of the same violated check (tried if the first does not replay)
	Inputs   map[string]string
	Path     string
	Count    int
	Stack    string

	confirmed     bool
	failedReplays int
	rank          int
}

type Sample struct {
	Harness string            `json:"harness"`
	Inputs  map[string]string `json:"inputs"`
	Obs     []string          `json:"obs"`     // expected observation strings
	Outcome string            `json:"outcome"` // "ok" | "panic"
}

type HarnessResult struct {
	Name            string
	Paths           int // completed feasible paths
	PathsOK         int
	Decisions       int // symbolic branch decisions
	ChecksProved    int
	ChecksConst     int
	Violations      map[string]*Violation
	Inconclusive    map[string]int // reason -> count
	Reached         map[string]int
	Samples         []Sample
	MaxAlloc        int
	Notes           map[string]int
	Queries         int
	SolverTime      time.Duration
	Wall            time.Duration
	Funcs           map[string]bool
	Stubs           map[string]int
	GoSkipped       map[string]int
	Unknowns        int
	Recovered       int
	PathSamples     []string
	Steps           int64
	truncated       bool
	pkgDir          string
	FallbackAnswers int
	AllDecisions    int
}

type Explorer struct {
	mu      sync.Mutex
	cond    *sync.Cond
	work    [][]Decision
	active  int
	res     *HarnessResult
	opts    *Options
	stopped bool
	started int
}

func (ex *Explorer) push(p []Decision) {
	ex.mu.Lock()
	ex.work = append(ex.work, p)
	ex.mu.Unlock()
	ex.cond.Signal()
}

func (ex *Explorer) pop() ([]Decision, bool) {
	ex.mu.Lock()
	defer ex.mu.Unlock()
	for {
		if ex.stopped {
			return nil, false
		}
		if n := len(ex.work); n > 0 {
			p := ex.work[n-1] // DFS
			ex.work = ex.work[:n-1]
			ex.active++
			ex.started++
			if ex.opts.MaxPaths > 0 && ex.started > ex.opts.MaxPaths {
				ex.res.truncated = true
				ex.stopped = true
				ex.cond.Broadcast()
				return nil, false
			}
			if !ex.opts.Deadline.IsZero() && time.Now().After(ex.opts.Deadline) {
				ex.res.truncated = true
				ex.stopped = true
				ex.cond.Broadcast()
				return nil, false
			}
			return p, true
		}
		if ex.active == 0 {
			ex.cond.Broadcast()
			return nil, false
		}
		ex.cond.Wait()
	}
}

func (ex *Explorer) done() {
	ex.mu.Lock()
	ex.active--
	if ex.active == 0 && len(ex.work) == 0 {
		ex.cond.Broadcast()
	}
	ex.mu.Unlock()
}

// ---- decisions (called from the interpreter)

func (in *Interp) assume(t *Term) {
	if t == in.tt.True {
		return
	}
	in.P.pc = append(in.P.pc, t)
	in.solver.Assert(in.tt, t)
	in.learn(t, true)
}

// learn records cheap syntactic facts from an asserted term (used by quickDecide).
func (in *Interp) learn(t *Term, val bool) {
	P := in.P
	if P.known == nil {
		P.known = map[*Term]bool{}
		P.lo = map[*Term]uint64{}
		P.hi = map[*Term]uint64{}
	}
	switch {
	case t.op == OBNot:
		in.learn(t.args[0], !val)
		return
	case t.op == OBAnd && val:
		in.learn(t.args[0], true)
		in.learn(t.args[1], true)
	case t.op == OBOr && !val:
		in.learn(t.args[0], false)
		in.learn(t.args[1], false)
	}
	P.known[t] = val
	// integer facts for the term layer
	if (t.op == OILt || t.op == OILe) && t.args[0].sort.K == SInt {
		a, b := t.args[0], t.args[1]
		tt := in.tt
		if tt.pathUB == nil {
			tt.pathUB = map[*Term]*big.Int{}
			tt.pathNonNeg = map[*Term]bool{}
		}
		one := big.NewInt(1)
		if val {
			if b.op == OConst && a.op != OConst { // a < c / a <= c
				u := new(big.Int).Set(b.big)
				if t.op == OILt {
					u.Sub(u, one)
				}
				if cur, ok := tt.pathUB[a]; !ok || u.Cmp(cur) < 0 {
					tt.pathUB[a] = u
				}
			}
			if a.op == OConst && b.op != OConst { // c < b / c <= b
				if a.big.Sign() >= 0 {
					tt.pathNonNeg[b] = true
				}
			}
		} else {
			// not (a < c) == a >= c ; not (a <= c) == a > c
			if b.op == OConst && a.op != OConst && b.big.Sign() >= 0 {
				tt.pathNonNeg[a] = true
			}
			if a.op == OConst && b.op != OConst { // not (c < b) == b <= c
				u := new(big.Int).Set(a.big)
				if t.op == OILe {
					u.Sub(u, one)
				}
				if cur, ok := tt.pathUB[b]; !ok || u.Cmp(cur) < 0 {
					tt.pathUB[b] = u
				}
			}
		}
	}
	// bounds
	setLo := func(x *Term, v uint64) {
		if x.op != OConst && x.sort.K == SBV && x.sort.W <= 64 {
			if cur, ok := P.lo[x]; !ok || v > cur {
				P.lo[x] = v
			}
		}
	}
	setHi := func(x *Term, v uint64) {
		if x.op != OConst && x.sort.K == SBV && x.sort.W <= 64 {
			if cur, ok := P.hi[x]; !ok || v < cur {
				P.hi[x] = v
			}
		}
	}
	if (t.op == OUle || t.op == OUlt) && t.args[0].sort.W <= 64 {
		a, b := t.args[0], t.args[1]
		strict := t.op == OUlt
		if val {
			if a.op == OConst { // c <= b  /  c < b
				v := a.cv
				if strict {
					if v == maskW(b.sort.W) {
						return
					}
					v++
				}
				setLo(b, v)
			} else if b.op == OConst { // a <= c / a < c
				v := b.cv
				if strict {
					if v == 0 {
						return
					}
					v--
				}
				setHi(a, v)
			}
		} else {
			// not (a <= b) == b < a ; not (a < b) == b <= a
			if a.op == OConst { // b < c / b <= c
				v := a.cv
				if !strict {
					if v == 0 {
						return
					}
					v--
				}
				setHi(b, v)
			} else if b.op == OConst { // c < a / c <= a
				v := b.cv
				if !strict {
					if v == maskW(a.sort.W) {
						return
					}
					v++
				}
				setLo(a, v)
			}
		}
	}
	if t.op == OEq && val && t.args[0].sort.K == SBV && t.args[0].sort.W <= 64 {
		for _, pr := range [][2]*Term{{t.args[0], t.args[1]}, {t.args[1], t.args[0]}} {
			if pr[1].op == OConst {
				setLo(pr[0], pr[1].cv)
				setHi(pr[0], pr[1].cv)
			}
		}
	}
}

func (in *Interp) bounds(x *Term) (uint64, uint64) {
	if x.op == OConst {
		return x.cv, x.cv
	}
	lo, hi := uint64(0), maskW(x.sort.W)
	if v, ok := in.P.lo[x]; ok {
		lo = v
	}
	if v, ok := in.P.hi[x]; ok {
		hi = v
	}
	// structural: zero-extension
	if x.op == OZExt {
		l2, h2 := in.bounds(x.args[0])
		if l2 > lo {
			lo = l2
		}
		if h2 < hi {
			hi = h2
		}
	}
	return lo, hi
}

// quickDecide decides c from facts already on the path, without the solver.
func (in *Interp) quickDecide(c *Term) (bool, bool) {
	P := in.P
	if P.known == nil {
		return false, false
	}
	if v, ok := P.known[c]; ok {
		return v, true
	}
	switch c.op {
	case OBNot:
		v, ok := in.quickDecide(c.args[0])
		return !v, ok
	case OBAnd:
		a, oka := in.quickDecide(c.args[0])
		b, okb := in.quickDecide(c.args[1])
		if (oka && !a) || (okb && !b) {
			return false, true
		}
		if oka && okb {
			return true, true
		}
	case OBOr:
		a, oka := in.quickDecide(c.args[0])
		b, okb := in.quickDecide(c.args[1])
		if (oka && a) || (okb && b) {
			return true, true
		}
		if oka && okb {
			return false, true
		}
	case OEq:
		if c.args[0].sort.K == SBV && c.args[0].sort.W <= 64 {
			l0, h0 := in.bounds(c.args[0])
			l1, h1 := in.bounds(c.args[1])
			if h0 < l1 || h1 < l0 {
				return false, true
			}
			if l0 == h0 && l1 == h1 && l0 == l1 {
				return true, true
			}
		}
	case OUle, OUlt:
		if c.args[0].sort.W <= 64 {
			l0, h0 := in.bounds(c.args[0])
			l1, h1 := in.bounds(c.args[1])
			if c.op == OUle {
				if h0 <= l1 {
					return true, true
				}
				if l0 > h1 {
					return false, true
				}
			} else {
				if h0 < l1 {
					return true, true
				}
				if l0 >= h1 {
					return false, true
				}
			}
		}
	}
	return false, false
}

func (in *Interp) explorer() *Explorer { return in.ex }

// branch decides a symbolic condition; returns the side taken on this path.
func (in *Interp) branch(c *Term) bool {
	if c.IsConst() {
		return c.ConstBool()
	}
	if in.initMode > 0 || in.P == nil {
		panic(unsupported{"symbolic branch during package initialisation"})
	}
	P := in.P
	P.branchesSym++
	if !in.opts.Deadline.IsZero() && P.pos >= len(P.prefix) && time.Now().After(in.opts.Deadline) {
		// the harness' time budget ran out in the middle of a path: abandon it (reported as truncated)
		in.ex.mu.Lock()
		in.ex.res.truncated = true
		in.ex.stopped = true
		in.ex.mu.Unlock()
		in.ex.cond.Broadcast()
		panic(boundExceeded{"time budget of the harness"})
	}
	if P.pos < len(P.prefix) {
		d := P.prefix[P.pos]
		P.pos++
		P.decisions = append(P.decisions, d)
		if d.N == 1 {
			in.assume(c)
			return true
		}
		in.assume(in.tt.Not(c))
		return false
	}
	if v, ok := in.quickDecide(c); ok {
		d := Decision{N: 0, K: 'b'}
		if v {
			d.N = 1
		}
		P.decisions = append(P.decisions, d)
		P.pos++
		in.learn(c, v)
		return v
	}
	rt, _ := in.solver.Check(in.tt, c, false, nil)
	if in.solver.dead {
		panic(unsupported{"solver died"})
	}
	if rt == Unsat {
		P.decisions = append(P.decisions, Decision{N: 0, K: 'b'})
		P.pos++
		in.assume(in.tt.Not(c))
		return false
	}
	if rt == Unknown {
		P.unknowns++
	}
	rf, _ := in.solver.Check(in.tt, in.tt.Not(c), false, nil)
	if in.solver.dead {
		panic(unsupported{"solver died"})
	}
	if rf == Unknown {
		P.unknowns++
	}
	if rf == Unsat {
		P.decisions = append(P.decisions, Decision{N: 1, K: 'b'})
		P.pos++
		in.assume(c)
		return true
	}
	// both feasible (or unknown): take true, schedule false
	alt := append(append([]Decision{}, P.decisions...), Decision{N: 0, K: 'b'})
	in.ex.push(alt)
	P.decisions = append(P.decisions, Decision{N: 1, K: 'b'})
	P.pos++
	in.assume(c)
	return true
}

// decideN forks n ways without consulting the solver (all alternatives feasible).
func (in *Interp) decideN(n int, what string) int {
	if n <= 1 {
		return 0
	}
	if in.initMode > 0 || in.P == nil {
		panic(unsupported{"choice during package initialisation"})
	}
	P := in.P
	if P.pos < len(P.prefix) {
		d := P.prefix[P.pos]
		P.pos++
		P.decisions = append(P.decisions, d)
		return d.N
	}
	for j := n - 1; j >= 1; j-- {
		alt := append(append([]Decision{}, P.decisions...), Decision{N: j, K: 'n'})
		in.ex.push(alt)
	}
	P.decisions = append(P.decisions, Decision{N: 0, K: 'n'})
	P.pos++
	return 0
}

// decideValue forks over all feasible values of t under the path condition.
func (in *Interp) decideValue(t *Term, what string) int64 {
	if t.IsConst() {
		return sext64(t.ConstU64(), t.sort.W)
	}
	if in.initMode > 0 || in.P == nil {
		panic(unsupported{"symbolic value during package initialisation"})
	}
	P := in.P
	if P.pos < len(P.prefix) {
		d := P.prefix[P.pos]
		P.pos++
		P.decisions = append(P.decisions, d)
		in.assume(in.tt.Eq(t, in.tt.BV(t.sort.W, uint64(d.V))))
		return d.V
	}
	var vals []int64
	excl := in.tt.True
	for {
		res, m := in.solver.Check(in.tt, excl, true, []*Term{t})
		if in.solver.dead {
			panic(unsupported{"solver died"})
		}
		if res == Unsat {
			break
		}
		if res == Unknown {
			P.unknowns++
			panic(unsupported{"concretize " + what + ": solver unknown"})
		}
		v := m[modelKey(t)]
		if v == nil {
			v = new(big.Int)
		}
		c := in.tt.BVBig(t.sort.W, v)
		vals = append(vals, sext64(c.ConstU64(), t.sort.W))
		excl = in.tt.And(excl, in.tt.Not(in.tt.Eq(t, c)))
		if len(vals) > in.opts.MaxConcretize {
			panic(boundExceeded{fmt.Sprintf("concretize %s: more than %d values", what, in.opts.MaxConcretize)})
		}
	}
	if len(vals) == 0 {
		panic(pathEnd{"infeasible at concretize"})
	}
	sort.Slice(vals, func(i, j int) bool { return vals[i] < vals[j] })
	for j := len(vals) - 1; j >= 1; j-- {
		alt := append(append([]Decision{}, P.decisions...), Decision{V: vals[j], K: 'v'})
		in.ex.push(alt)
	}
	P.decisions = append(P.decisions, Decision{V: vals[0], K: 'v'})
	P.pos++
	in.assume(in.tt.Eq(t, in.tt.BV(t.sort.W, uint64(vals[0]))))
	return vals[0]
}

func modelKey(t *Term) string {
	if t.op == OVar {
		return t.name
	}
	return t.ref()
}

// ---- checks

func (in *Interp) inputVars() []*Term {
	var vs []*Term
	seen := map[*Term]bool{}
	for _, ir := range in.P.inputs {
		for _, v := range ir.Vars {
			if v.op == OVar && !seen[v] {
				seen[v] = true
				vs = append(vs, v)
			}
		}
	}
	return vs
}

func (in *Interp) inputsFromModel(m Model) map[string]string {
	out := map[string]string{}
	for _, ir := range in.P.inputs {
		switch ir.Kind {
		case "bytes", "str":
			var sb strings.Builder
			for _, v := range ir.Vars {
				var b uint64
				if v.IsConst() {
					b = v.cv
				} else if x := m[v.name]; x != nil {
					b = x.Uint64()
				}
				fmt.Fprintf(&sb, "%02x", b&0xff)
			}
			out[ir.Name] = sb.String()
		case "conc":
			out[ir.Name] = ir.Conc.String()
		case "digits":
			var sb strings.Builder
			for _, v := range ir.Vars {
				d := int64(0)
				if x := m[v.name]; x != nil {
					d = x.Int64()
				}
				fmt.Fprintf(&sb, "%d", d)
			}
			out[ir.Name] = sb.String()
		default:
			v := ir.Vars[0]
			x := m[v.name]
			if v.IsConst() {
				x = v.ConstBig()
			}
			if x == nil {
				x = new(big.Int)
			}
			out[ir.Name] = x.String()
		}
	}
	return out
}

func (in *Interp) recordViolation(label, detail string, m Model, stack string) {
	in.recordViolationRanked(label, detail, m, stack, 0)
}

// recordViolationRanked keeps, per label, the model with the highest rank (e.g. the most
// excessive allocation), so that the native replay gets the clearest witness.
func (in *Interp) recordViolationRanked(label, detail string, m Model, stack string, rank int) {
	res := in.ex.res
	inputs := in.inputsFromModel(m)
	in.ex.mu.Lock()
	defer in.ex.mu.Unlock()
	key := label
	if v, ok := res.Violations[key]; ok {
		v.Count++
		if rank > v.rank {
			v.rank, v.Inputs, v.Stack, v.Path, v.Detail = rank, inputs, stack, fmtDecisions(in.P.decisions), detail
		}
		return
	}
	res.Violations[key] = &Violation{Harness: res.Name, Label: label, Detail: detail, Inputs: inputs, Path: fmtDecisions(in.P.decisions), Count: 1, Stack: stack, rank: rank, MapOrder: in.P.usedMapOrder}
}

func fmtDecisions(ds []Decision) string {
	var sb strings.Builder
	for _, d := range ds {
		switch d.K {
		case 'v':
			fmt.Fprintf(&sb, "v%d ", d.V)
		case 'n':
			fmt.Fprintf(&sb, "n%d ", d.N)
		default:
			fmt.Fprintf(&sb, "%d", d.N)
		}
	}
	return sb.String()
}

// check implements symx.Check.
func (in *Interp) check(c *Term, label string) {
	P := in.P
	if c == in.tt.True {
		P.checksConst++
		return
	}
	res, m := in.solver.Check(in.tt, in.tt.Not(c), true, in.inputVars())
	if in.solver.dead {
		panic(unsupported{"solver died in check " + label})
	}
	switch res {
	case Unsat:
		P.checksOK++
	case Sat:
		in.recordViolation(label, "check failed", m, in.stackString())
		if P.nondet {
			in.moreModels(label, in.tt.Not(c), m)
		}
		// continue under the assumption that the check held (if that is feasible)
		if c == in.tt.False {
			panic(pathEnd{"violation"})
		}
		r2, _ := in.solver.Check(in.tt, c, false, nil)
		if r2 != Sat {
			panic(pathEnd{"violation"})
		}
	default:
		P.unknowns++
		if in.opts.Verbose > 0 {
			var cs []string
			for _, ir := range P.inputs {
				if ir.Kind == "conc" {
					cs = append(cs, ir.Name+"="+ir.Conc.String())
				}
			}
			fmt.Fprintf(os.Stderr, "unknown check %q choices: %s\n", label, strings.Join(cs, " "))
		}
		in.noteInconclusive("check " + label + ": solver unknown")
	}
	in.assume(c)
}

// moreModels collects up to two further models of a violated check on a path that uses
// over-approximating stubs (the first model may be an artefact of the approximation).
func (in *Interp) moreModels(label string, neg *Term, first Model) {
	vars := in.inputVars()
	block := in.tt.True
	prev := first
	for k := 0; k < 7; k++ {
		diff := in.tt.False
		n := 0
		for _, v := range vars {
			x := prev[v.name]
			if x == nil || n >= 24 {
				continue
			}
			n++
			var c *Term
			switch v.sort.K {
			case SBool:
				c = in.tt.Bool(x.Sign() != 0)
			case SBV:
				c = in.tt.BVBig(v.sort.W, x)
			default:
				c = in.tt.Int(x)
			}
			diff = in.tt.Or(diff, in.tt.Not(in.tt.Eq(v, c)))
		}
		block = in.tt.And(block, diff)
		res, m := in.solver.Check(in.tt, in.tt.And(neg, block), true, vars)
		if res != Sat {
			return
		}
		in.ex.mu.Lock()
		if v, ok := in.ex.res.Violations[label]; ok && len(v.Alt) < 7 {
			v.Alt = append(v.Alt, in.inputsFromModel(m))
		}
		in.ex.mu.Unlock()
		prev = m
	}
}

func (in *Interp) noteInconclusive(why string) {
	in.ex.mu.Lock()
	in.ex.res.Inconclusive[why]++
	in.ex.mu.Unlock()
}

// ---- running paths

func (in *Interp) runPath(fn *ssa.Function, prefix []Decision) {
	ex := in.ex
	in.epoch++
	in.tt.pathUB, in.tt.pathNonNeg = nil, nil
	in.P = &PathState{prefix: prefix, views: map[*Array]*Obj{}, fresh: map[string]int{}, reached: map[string]bool{}}
	in.solver.NewPath()
	P := in.P
	status := "ok"
	var detail string
	func() {
		defer func() {
			r := recover()
			if r == nil {
				return
			}
			switch x := r.(type) {
			case targetPanic:
				status = "panic"
				detail = x.msg
				// a feasible path panics: violation (harnesses recover expected panics themselves)
				res, m := in.solver.Check(in.tt, nil, true, in.inputVars())
				if res == Sat {
					in.recordViolation("panic: "+normalizePanic(x.msg), x.msg, m, x.stack)
				} else if res == Unknown {
					in.noteInconclusive("panic path with unknown feasibility: " + normalizePanic(x.msg))
				} else {
					status = "infeasible"
				}
			case pathEnd:
				status = "end:" + x.reason
			case unsupported:
				status = "unsupported"
				detail = x.msg
				in.noteInconclusive("unsupported: " + x.msg + " @ " + in.stackString())
			case boundExceeded:
				status = "bound"
				detail = x.what
				if x.what == "time budget of the harness" {
					in.noteInconclusive("BOUND-EXCEEDED: " + x.what + " (paths in progress abandoned)")
				} else {
					in.noteInconclusive("BOUND-EXCEEDED: " + x.what + " @ " + in.stackString())
				}
			default:
				status = "internal"
				detail = fmt.Sprint(r)
				st := string(debug.Stack())
				if in.opts.Verbose > 0 {
					fmt.Fprintf(os.Stderr, "internal error: %v\n%s\ninterp stack: %s\n", r, st, in.stackString())
				}
				in.noteInconclusive("internal: " + detail + " @ " + in.stackString())
			}
		}()
		in.callSSA(nil, fn, nil, nil, false)
	}()
	// sampling for translator validation
	var sample *Sample
	if status == "ok" || status == "panic" {
		ex.mu.Lock()
		want := len(ex.res.Samples) < in.opts.Samples
		ex.mu.Unlock()
		if want && !P.nondet && !P.usedMapOrder {
			sample = in.makeSample(status)
		}
	}
	ex.mu.Lock()
	r := ex.res
	if status == "ok" || status == "panic" || status == "end:violation" {
		r.Paths++
		if status == "ok" {
			r.PathsOK++
		}
	}
	r.Decisions += P.branchesSym
	r.AllDecisions += len(P.decisions)
	r.ChecksProved += P.checksOK
	r.ChecksConst += P.checksConst
	r.Unknowns += P.unknowns
	r.Recovered += P.recovered
	r.Steps += int64(P.steps)
	for k := range P.reached {
		r.Reached[k]++
	}
	for _, a := range P.allocs {
		if a > r.MaxAlloc {
			r.MaxAlloc = a
		}
	}
	for _, n := range P.notes {
		r.Notes[n]++
	}
	if sample != nil && len(r.Samples) < in.opts.Samples {
		r.Samples = append(r.Samples, *sample)
	}
	if len(r.PathSamples) < 5 {
		r.PathSamples = append(r.PathSamples, fmt.Sprintf("%s [%s] pc=%d terms steps=%d", fmtDecisions(P.decisions), status, len(P.pc), P.steps))
	}
	ex.mu.Unlock()
	if in.opts.Verbose > 1 {
		fmt.Fprintf(os.Stderr, "path %s: %s %s (steps %d)\n", fmtDecisions(P.decisions), status, detail, P.steps)
	}
	in.rollback()
	in.P = nil
}

func normalizePanic(msg string) string {
	// strip numbers so that one defect has one label
	var sb strings.Builder
	for _, c := range msg {
		if c >= '0' && c <= '9' {
			continue
		}
		sb.WriteRune(c)
	}
	s := sb.String()
	if len(s) > 120 {
		s = s[:120]
	}
	return s
}

func (in *Interp) makeSample(status string) *Sample {
	res, m := in.solver.Check(in.tt, nil, true, in.inputVars())
	if res != Sat {
		return nil
	}
	s := &Sample{Harness: in.ex.res.Name, Inputs: in.inputsFromModel(m), Outcome: status}
	cache := map[int]*Term{}
	for _, o := range in.P.obs {
		str := o.Label + "="
		if o.Conc != "" || len(o.Terms) == 0 {
			str += o.Conc
		} else {
			for _, t := range o.Terms {
				v, ok := in.tt.Eval(t, m, cache)
				if !ok {
					str = o.Label + "=?" // cannot predict (uninterpreted function / real in observation)
					break
				}
				switch o.Kind {
				case "bytes":
					str += fmt.Sprintf("%02x", v.ConstU64()&0xff)
				case "bool":
					str += fmt.Sprint(v.ConstBool())
				case "int":
					str += v.ConstSigned().String()
				default:
					str += v.ConstBig().String()
				}
			}
		}
		s.Obs = append(s.Obs, str)
	}
	return s
}

// Explore runs the harness function over all paths.
const maxTermsPerWorker = 600000

func Explore(prog *ssa.Program, fn *ssa.Function, opts *Options) *HarnessResult {
	res := &HarnessResult{Name: fn.Name(), Violations: map[string]*Violation{}, Inconclusive: map[string]int{}, Reached: map[string]int{},
		Notes: map[string]int{}, Funcs: map[string]bool{}, Stubs: map[string]int{}, GoSkipped: map[string]int{}}
	ex := &Explorer{res: res, opts: opts}
	ex.cond = sync.NewCond(&ex.mu)
	ex.work = [][]Decision{nil}
	start := time.Now()
	var wg sync.WaitGroup
	nw := opts.Workers
	for w := 0; w < nw; w++ {
		wg.Add(1)
		go func(w int) {
			defer wg.Done()
			var logw *os.File
			if opts.SolverLog != "" && w == 0 {
				logw, _ = os.Create(opts.SolverLog)
				defer logw.Close()
			}
			var solver *Solver
			var err error
			if logw != nil {
				solver, err = NewSolver(opts.SolverKind, opts.TimeoutMs, logw)
			} else {
				solver, err = NewSolver(opts.SolverKind, opts.TimeoutMs, nil)
			}
			if err != nil {
				panic(err)
			}
			defer solver.Close()
			solver.Fallbacks = opts.Fallbacks
			solver.Deadline = opts.Deadline
			in := NewInterp(prog, solver, opts)
			in.ex = ex
			flush := func() {
				ex.mu.Lock()
				for f := range in.funcsSeen {
					res.Funcs[f.String()] = true
				}
				for k, v := range in.stubsUsed {
					res.Stubs[k] += v
				}
				for k, v := range in.goSkipped {
					res.GoSkipped[k] += v
				}
				ex.mu.Unlock()
			}
			for {
				p, ok := ex.pop()
				if !ok {
					break
				}
				in.runPath(fn, p)
				ex.done()
				// the hash-consed term table only grows: start over with a fresh interpreter
				// (globals are re-initialised from the package initialisers) when it gets large
				if len(in.tt.tab) > maxTermsPerWorker {
					flush()
					in = NewInterp(prog, solver, opts)
					in.ex = ex
				}
			}
			flush()
			ex.mu.Lock()
			res.Queries += solver.Queries
			res.FallbackAnswers += solver.FallbackN
			res.SolverTime += solver.Time
			ex.mu.Unlock()
		}(w)
	}
	wg.Wait()
	res.Wall = time.Since(start)
	if res.truncated {
		res.Inconclusive["exploration truncated (path/time budget)"]++
	}
	return res
}
