package main

// Hash-consed SMT terms with constant folding.
//
// Sorts: Bool, (_ BitVec w), Int.  Every Go fixed-width integer is a BitVec
// term (wrap-around semantics); *big.Int payloads are Int terms.

import (
	"fmt"
	"math/big"
	"sort"
	"strings"
)

type SortKind uint8

const (
	SBool SortKind = iota
	SBV
	SInt
	SReal
)

type Sort struct {
	K SortKind
	W int
}

func (s Sort) String() string {
	switch s.K {
	case SBool:
		return "Bool"
	case SBV:
		return fmt.Sprintf("(_ BitVec %d)", s.W)
	case SReal:
		return "Real"
	}
	return "Int"
}

var RealSort = Sort{SReal, 0}

var BoolSort = Sort{SBool, 0}
var IntSort = Sort{SInt, 0}

func BVSort(w int) Sort { return Sort{SBV, w} }

type Op uint8

const (
	OConst Op = iota
	OVar
	// bv
	OAdd
	OSub
	OMul
	OUDiv
	OURem
	OSDiv
	OSRem
	OAnd
	OOr
	OXor
	ONot
	ONeg
	OShl
	OLShr
	OAShr
	OConcat
	OExtract // p1=hi p2=lo
	OZExt    // p1 = extra bits
	OSExt
	// predicates
	OEq
	OUlt
	OUle
	OSlt
	OSle
	// bool
	OBNot
	OBAnd
	OBOr
	OIte
	// int
	OIAdd
	OISub
	OIMul
	OIDiv // SMT-LIB div (floor for positive divisor)
	OIMod // SMT-LIB mod (non-negative)
	OINeg
	OIAbs
	OILe
	OILt
	OInt2BV // p1 = width
	OBV2Nat
	OApp // uninterpreted function; name = symbol
	ORDiv
	OToReal
	OToInt // floor
)

var opNames = map[Op]string{
	OAdd: "bvadd", OSub: "bvsub", OMul: "bvmul", OUDiv: "bvudiv", OURem: "bvurem", OSDiv: "bvsdiv", OSRem: "bvsrem",
	OAnd: "bvand", OOr: "bvor", OXor: "bvxor", ONot: "bvnot", ONeg: "bvneg", OShl: "bvshl", OLShr: "bvlshr", OAShr: "bvashr",
	OConcat: "concat", OEq: "=", OUlt: "bvult", OUle: "bvule", OSlt: "bvslt", OSle: "bvsle",
	OBNot: "not", OBAnd: "and", OBOr: "or", OIte: "ite",
	OIAdd: "+", OISub: "-", OIMul: "*", OIDiv: "div", OIMod: "mod", OINeg: "-", OIAbs: "abs", OILe: "<=", OILt: "<",
	OBV2Nat: "bv2nat", ORDiv: "/", OToReal: "to_real", OToInt: "to_int",
}

type Term struct {
	id   int
	op   Op
	sort Sort
	args []*Term
	cv   uint64   // const value for Bool (0/1) and BV w<=64
	big  *big.Int // const value for Int and BV w>64
	name string
	p1   int
	p2   int
	rat  *big.Rat // const value for Real
	ub   *big.Int // known upper bound of a non-negative Int term (nil: unknown / may be negative)
	ubOk bool
}

func (t *Term) IsConst() bool { return t.op == OConst }
func (t *Term) Sort() Sort    { return t.sort }

type termKey struct {
	op         Op
	k          SortKind
	w          int
	a0, a1, a2 int
	cv         uint64
	p1, p2     int
	extra      string
}

// UF signature
type ufSig struct {
	name string
	args []Sort
	ret  Sort
}

type TermTable struct {
	// facts learnt from the current path condition (reset per path): upper bounds and
	// non-negativity of Int terms, used by a few rewrites (bv2nat(int2bv(t)), abs(t))
	pathUB     map[*Term]*big.Int
	pathNonNeg map[*Term]bool
	IntMode    bool          // integer encoding of limb arithmetic: split bv2nat over concatenations
	rangeVars  map[*Term]int // Int variables known to lie in [0, 2^bits)
	tab        map[termKey]*Term
	next       int
	ufs        map[string]*ufSig
	vars       map[string]*Term
	True       *Term
	False      *Term
}

func NewTermTable() *TermTable {
	tt := &TermTable{tab: map[termKey]*Term{}, ufs: map[string]*ufSig{}, vars: map[string]*Term{}, rangeVars: map[*Term]int{}}
	tt.True = tt.mk(&Term{op: OConst, sort: BoolSort, cv: 1})
	tt.False = tt.mk(&Term{op: OConst, sort: BoolSort, cv: 0})
	return tt
}

func (tt *TermTable) mk(t *Term) *Term {
	k := termKey{op: t.op, k: t.sort.K, w: t.sort.W, cv: t.cv, p1: t.p1, p2: t.p2, a0: -1, a1: -1, a2: -1}
	switch len(t.args) {
	case 0:
	case 1:
		k.a0 = t.args[0].id
	case 2:
		k.a0, k.a1 = t.args[0].id, t.args[1].id
	case 3:
		k.a0, k.a1, k.a2 = t.args[0].id, t.args[1].id, t.args[2].id
	default:
		var sb strings.Builder
		for _, a := range t.args {
			fmt.Fprintf(&sb, "%d,", a.id)
		}
		k.extra = sb.String()
	}
	if t.name != "" {
		k.extra += "|" + t.name
	}
	if t.big != nil {
		k.extra += "#" + t.big.Text(16)
	}
	if e, ok := tt.tab[k]; ok {
		return e
	}
	t.id = tt.next
	tt.next++
	tt.tab[k] = t
	return t
}

// ---------- constants

func (tt *TermTable) Bool(b bool) *Term {
	if b {
		return tt.True
	}
	return tt.False
}

func maskW(w int) uint64 {
	if w >= 64 {
		return ^uint64(0)
	}
	return (uint64(1) << uint(w)) - 1
}

func (tt *TermTable) BV(w int, v uint64) *Term {
	if w > 64 {
		return tt.BVBig(w, new(big.Int).SetUint64(v))
	}
	return tt.mk(&Term{op: OConst, sort: BVSort(w), cv: v & maskW(w)})
}

func (tt *TermTable) BVBig(w int, v *big.Int) *Term {
	m := new(big.Int).Lsh(big.NewInt(1), uint(w))
	x := new(big.Int).Mod(v, m)
	if w <= 64 {
		return tt.BV(w, x.Uint64())
	}
	return tt.mk(&Term{op: OConst, sort: BVSort(w), big: x})
}

func (tt *TermTable) Int(v *big.Int) *Term {
	return tt.mk(&Term{op: OConst, sort: IntSort, big: new(big.Int).Set(v)})
}
func (tt *TermTable) IntI(v int64) *Term { return tt.Int(big.NewInt(v)) }

func (tt *TermTable) Var(name string, s Sort) *Term {
	if v, ok := tt.vars[name]; ok {
		if v.sort != s {
			panic(fmt.Sprintf("var %s redeclared with different sort %v vs %v", name, v.sort, s))
		}
		return v
	}
	v := tt.mk(&Term{op: OVar, sort: s, name: name})
	tt.vars[name] = v
	return v
}

// constant accessors
func (t *Term) ConstBool() bool { return t.cv != 0 }
func (t *Term) ConstU64() uint64 {
	if t.big != nil {
		return t.big.Uint64()
	}
	return t.cv
}
func (t *Term) ConstBig() *big.Int {
	if t.big != nil {
		return t.big
	}
	return new(big.Int).SetUint64(t.cv)
}

// signed interpretation of a BV constant
func (t *Term) ConstSigned() *big.Int {
	v := new(big.Int).Set(t.ConstBig())
	if t.sort.K == SBV && v.Bit(t.sort.W-1) == 1 {
		v.Sub(v, new(big.Int).Lsh(big.NewInt(1), uint(t.sort.W)))
	}
	return v
}

func sext64(v uint64, w int) int64 {
	if w >= 64 {
		return int64(v)
	}
	sh := uint(64 - w)
	return int64(v<<sh) >> sh
}

// ---------- generic constructors

func (tt *TermTable) un(op Op, s Sort, a *Term) *Term {
	return tt.mk(&Term{op: op, sort: s, args: []*Term{a}})
}
func (tt *TermTable) bin(op Op, s Sort, a, b *Term) *Term {
	return tt.mk(&Term{op: op, sort: s, args: []*Term{a, b}})
}

func bothConst(a, b *Term) bool { return a.op == OConst && b.op == OConst }

// BV binary op with folding. op in OAdd..OAShr
func (tt *TermTable) BVBin(op Op, a, b *Term) *Term {
	if a.sort != b.sort || a.sort.K != SBV {
		panic(fmt.Sprintf("BVBin %v sort mismatch %v %v", opNames[op], a.sort, b.sort))
	}
	w := a.sort.W
	if bothConst(a, b) {
		if w <= 64 {
			x, y := a.cv, b.cv
			var r uint64
			switch op {
			case OAdd:
				r = x + y
			case OSub:
				r = x - y
			case OMul:
				r = x * y
			case OUDiv:
				if y == 0 {
					r = maskW(w)
				} else {
					r = x / y
				}
			case OURem:
				if y == 0 {
					r = x
				} else {
					r = x % y
				}
			case OSDiv:
				sx, sy := sext64(x, w), sext64(y, w)
				if sy == 0 {
					if sx >= 0 {
						r = maskW(w)
					} else {
						r = 1
					}
				} else if sy == -1 {
					r = uint64(-sx)
				} else {
					r = uint64(sx / sy)
				}
			case OSRem:
				sx, sy := sext64(x, w), sext64(y, w)
				if sy == 0 {
					r = x
				} else if sy == -1 {
					r = 0
				} else {
					r = uint64(sx % sy)
				}
			case OAnd:
				r = x & y
			case OOr:
				r = x | y
			case OXor:
				r = x ^ y
			case OShl:
				if y >= uint64(w) {
					r = 0
				} else {
					r = x << y
				}
			case OLShr:
				if y >= uint64(w) {
					r = 0
				} else {
					r = x >> y
				}
			case OAShr:
				sx := sext64(x, w)
				if y >= uint64(w) {
					if sx < 0 {
						r = maskW(w)
					} else {
						r = 0
					}
				} else {
					r = uint64(sx >> y)
				}
			default:
				panic("BVBin fold")
			}
			return tt.BV(w, r)
		}
		// wide
		x, y := a.ConstBig(), b.ConstBig()
		r := new(big.Int)
		m := new(big.Int).Lsh(big.NewInt(1), uint(w))
		switch op {
		case OAdd:
			r.Add(x, y)
		case OSub:
			r.Sub(x, y)
		case OMul:
			r.Mul(x, y)
		case OUDiv:
			if y.Sign() == 0 {
				r.Sub(m, big.NewInt(1))
			} else {
				r.Quo(x, y)
			}
		case OURem:
			if y.Sign() == 0 {
				r.Set(x)
			} else {
				r.Rem(x, y)
			}
		case OAnd:
			r.And(x, y)
		case OOr:
			r.Or(x, y)
		case OXor:
			r.Xor(x, y)
		case OShl:
			if y.Cmp(big.NewInt(int64(w))) >= 0 {
				r.SetInt64(0)
			} else {
				r.Lsh(x, uint(y.Uint64()))
			}
		case OLShr:
			if y.Cmp(big.NewInt(int64(w))) >= 0 {
				r.SetInt64(0)
			} else {
				r.Rsh(x, uint(y.Uint64()))
			}
		case OSDiv, OSRem, OAShr:
			sx, sy := a.ConstSigned(), b.ConstSigned()
			switch op {
			case OSDiv:
				if sy.Sign() == 0 {
					if sx.Sign() >= 0 {
						r.Sub(m, big.NewInt(1))
					} else {
						r.SetInt64(1)
					}
				} else {
					r.Quo(sx, sy)
				}
			case OSRem:
				if sy.Sign() == 0 {
					r.Set(sx)
				} else {
					r.Rem(sx, sy)
				}
			case OAShr:
				if y.Cmp(big.NewInt(int64(w))) >= 0 {
					if sx.Sign() < 0 {
						r.SetInt64(-1)
					} else {
						r.SetInt64(0)
					}
				} else {
					r.Rsh(sx, uint(y.Uint64()))
				}
			}
		default:
			panic("BVBin fold wide")
		}
		return tt.BVBig(w, r)
	}
	// simple identities
	isZero := func(t *Term) bool { return t.op == OConst && t.ConstBig().Sign() == 0 }
	isOnes := func(t *Term) bool {
		return t.op == OConst && ((w <= 64 && t.cv == maskW(w)) || (w > 64 && t.big.BitLen() == w && new(big.Int).Add(t.big, big.NewInt(1)).BitLen() == w+1))
	}
	switch op {
	case OAdd, OOr, OXor:
		if isZero(a) {
			return b
		}
		if isZero(b) {
			return a
		}
		if op == OXor && a == b {
			return tt.BV(w, 0)
		}
		if op == OOr && a == b {
			return a
		}
	case OSub, OShl, OLShr, OAShr:
		if isZero(b) {
			return a
		}
		if op == OSub && b.op == OConst && a.op == OAdd && a.args[0] == b {
			return a.args[1] // (c + x) - c
		}
		if op == OSub && b.op == OConst && a.op == OInt2BV {
			// int2bv(I) - c = int2bv(I - c)
			return tt.Int2BV(w, tt.IBin(OISub, a.args[0], tt.Int(b.ConstBig())))
		}
		if op == OSub && a == b {
			return tt.BV(w, 0)
		}
		if op != OSub && isZero(a) {
			return a
		}
	case OAnd:
		if isZero(a) {
			return a
		}
		if isZero(b) {
			return b
		}
		if isOnes(a) {
			return b
		}
		if isOnes(b) {
			return a
		}
		if a == b {
			return a
		}
	case OMul:
		if isZero(a) {
			return a
		}
		if isZero(b) {
			return b
		}
		if a.op == OConst && a.ConstBig().Cmp(big.NewInt(1)) == 0 {
			return b
		}
		if b.op == OConst && b.ConstBig().Cmp(big.NewInt(1)) == 0 {
			return a
		}
	}
	if op == OOr || op == OXor || op == OAdd {
		if r := tt.mergePieces(a, b); r != nil {
			return r
		}
	}
	if op == OAnd {
		// x & lowmask -> zext(extract)
		for _, pr := range [][2]*Term{{a, b}, {b, a}} {
			c, x := pr[0], pr[1]
			if c.op == OConst {
				m := c.ConstBig()
				k := m.BitLen()
				if k > 0 && k < w && new(big.Int).Add(m, big.NewInt(1)).BitLen() == k+1 && new(big.Int).And(new(big.Int).Add(m, big.NewInt(1)), m).Sign() == 0 {
					return tt.ZExt(tt.Extract(k-1, 0, x), w)
				}
			}
		}
	}
	// canonical order for commutative ops: const first
	switch op {
	case OAdd, OMul, OAnd, OOr, OXor:
		if b.op == OConst || (a.op != OConst && a.id > b.id) {
			a, b = b, a
		}
	}
	return tt.bin(op, a.sort, a, b)
}

// ---- byte-assembly normalisation

type piece struct {
	t      *Term // nil: zeros
	hi, lo int   // bit range inside t (for zeros: width = hi-lo+1)
}

func (p piece) width() int { return p.hi - p.lo + 1 }

// pieces describes t as a concatenation (most significant first) of extracts and zero runs.
// Returns nil if t has no useful structure (a single opaque piece).
func (tt *TermTable) pieces(t *Term, depth int) []piece {
	w := t.sort.W
	opaque := []piece{{t, w - 1, 0}}
	if depth > 6 {
		return opaque
	}
	switch t.op {
	case OConst:
		if t.ConstBig().Sign() == 0 {
			return []piece{{nil, w - 1, 0}}
		}
		return opaque
	case OExtract:
		return []piece{{t.args[0], t.p1, t.p2}}
	case OZExt:
		return append([]piece{{nil, t.p1 - 1, 0}}, tt.pieces(t.args[0], depth+1)...)
	case OConcat:
		return append(append([]piece{}, tt.pieces(t.args[0], depth+1)...), tt.pieces(t.args[1], depth+1)...)
	case OShl, OLShr:
		c := t.args[1]
		if c.op != OConst || !c.ConstBig().IsInt64() {
			return opaque
		}
		k := int(c.ConstBig().Int64())
		if k >= w {
			return []piece{{nil, w - 1, 0}}
		}
		if k == 0 {
			return tt.pieces(t.args[0], depth+1)
		}
		inner := tt.pieces(t.args[0], depth+1)
		if t.op == OShl {
			// drop the top k bits, append k zeros
			return append(slicePieces(inner, w, w-k-1, 0), piece{nil, k - 1, 0})
		}
		return append([]piece{{nil, k - 1, 0}}, slicePieces(inner, w, w-1, k)...)
	}
	return opaque
}

// slicePieces returns the bits [hi:lo] of the value described by ps (total width w).
func slicePieces(ps []piece, w, hi, lo int) []piece {
	var out []piece
	top := w - 1
	for _, p := range ps {
		pw := p.width()
		bot := top - pw + 1 // this piece covers value bits [top:bot]
		h, l := top, bot
		if hi < h {
			h = hi
		}
		if lo > l {
			l = lo
		}
		if h >= l {
			if p.t == nil {
				out = append(out, piece{nil, h - l, 0})
			} else {
				out = append(out, piece{p.t, p.lo + (h - bot), p.lo + (l - bot)})
			}
		}
		top = bot - 1
	}
	return out
}

// mergePieces returns a|b (== a^b == a+b) when at every bit position at least one side is a
// known zero, rebuilt as a concatenation; nil otherwise.
func (tt *TermTable) mergePieces(a, b *Term) *Term {
	if !hasZeroStructure(a) || !hasZeroStructure(b) {
		return nil
	}
	pa, pb := tt.pieces(a, 0), tt.pieces(b, 0)
	w := a.sort.W
	// collect boundaries
	var out []piece
	ia, ib := 0, 0
	ra, rb := pa[0], pb[0] // remaining parts of current pieces
	pos := w
	for pos > 0 {
		n := ra.width()
		if rb.width() < n {
			n = rb.width()
		}
		// take top n bits of both
		ta := piece{ra.t, ra.hi, ra.hi - n + 1}
		tb := piece{rb.t, rb.hi, rb.hi - n + 1}
		switch {
		case ta.t == nil:
			out = append(out, tb)
		case tb.t == nil:
			out = append(out, ta)
		default:
			return nil
		}
		pos -= n
		ra.hi -= n
		rb.hi -= n
		if ra.width() == 0 {
			ia++
			if ia < len(pa) {
				ra = pa[ia]
			}
		}
		if rb.width() == 0 {
			ib++
			if ib < len(pb) {
				rb = pb[ib]
			}
		}
	}
	return tt.buildPieces(out)
}

func hasZeroStructure(t *Term) bool {
	switch t.op {
	case OZExt:
		return true
	case OShl, OLShr:
		return t.args[1].op == OConst
	case OConcat:
		return hasZeroStructure(t.args[0]) || hasZeroStructure(t.args[1]) || isZeroConst(t.args[0]) || isZeroConst(t.args[1])
	}
	return false
}

func isZeroConst(t *Term) bool { return t.op == OConst && t.ConstBig().Sign() == 0 }

func (tt *TermTable) buildPieces(ps []piece) *Term {
	// merge adjacent pieces
	var m []piece
	for _, p := range ps {
		if len(m) > 0 {
			l := &m[len(m)-1]
			if l.t == nil && p.t == nil {
				l.hi += p.width()
				continue
			}
			if l.t != nil && l.t == p.t && l.lo == p.hi+1 {
				l.lo = p.lo
				continue
			}
		}
		m = append(m, p)
	}
	var r *Term
	for _, p := range m {
		var t *Term
		if p.t == nil {
			t = tt.BV(p.width(), 0)
		} else {
			t = tt.Extract(p.hi, p.lo, p.t)
		}
		if r == nil {
			r = t
		} else if isZeroConst(r) {
			r = tt.ZExt(t, r.sort.W+t.sort.W)
		} else {
			r = tt.Concat(r, t)
		}
	}
	return r
}

func (tt *TermTable) BVNot(a *Term) *Term {
	if a.op == OConst {
		if a.sort.W <= 64 {
			return tt.BV(a.sort.W, ^a.cv)
		}
		m := new(big.Int).Lsh(big.NewInt(1), uint(a.sort.W))
		m.Sub(m, big.NewInt(1))
		return tt.BVBig(a.sort.W, m.Sub(m, a.big))
	}
	if a.op == ONot {
		return a.args[0]
	}
	return tt.un(ONot, a.sort, a)
}

func (tt *TermTable) BVNeg(a *Term) *Term {
	if a.op == OConst {
		return tt.BVBin(OSub, tt.BV(a.sort.W, 0), a)
	}
	return tt.un(ONeg, a.sort, a)
}

func (tt *TermTable) Extract(hi, lo int, a *Term) *Term {
	w := hi - lo + 1
	if a.sort.K != SBV || hi >= a.sort.W || lo < 0 || w <= 0 {
		panic(fmt.Sprintf("bad extract [%d:%d] of %v", hi, lo, a.sort))
	}
	if w == a.sort.W {
		return a
	}
	if a.op == OConst {
		v := new(big.Int).Rsh(a.ConstBig(), uint(lo))
		return tt.BVBig(w, v)
	}
	switch a.op {
	case OExtract:
		return tt.Extract(hi+a.p2, lo+a.p2, a.args[0])
	case OZExt:
		iw := a.args[0].sort.W
		if hi < iw {
			return tt.Extract(hi, lo, a.args[0])
		}
		if lo >= iw {
			return tt.BV(w, 0)
		}
		return tt.ZExt(tt.Extract(iw-1, lo, a.args[0]), w)
	case OSExt:
		iw := a.args[0].sort.W
		if hi < iw {
			return tt.Extract(hi, lo, a.args[0])
		}
		if lo < iw {
			return tt.SExt(tt.Extract(iw-1, lo, a.args[0]), w)
		}
		return tt.SExt(tt.Extract(iw-1, iw-1, a.args[0]), w)
	case OConcat:
		lw := a.args[1].sort.W
		if hi < lw {
			return tt.Extract(hi, lo, a.args[1])
		}
		if lo >= lw {
			return tt.Extract(hi-lw, lo-lw, a.args[0])
		}
	case OLShr:
		if c := a.args[1]; c.op == OConst && c.ConstBig().IsInt64() {
			k := int(c.ConstBig().Int64())
			if hi+k < a.sort.W {
				return tt.Extract(hi+k, lo+k, a.args[0])
			}
			if lo+k >= a.sort.W {
				return tt.BV(w, 0)
			}
		}
	case OAShr:
		if c := a.args[1]; c.op == OConst && c.ConstBig().IsInt64() {
			k := int(c.ConstBig().Int64())
			if hi+k < a.sort.W {
				return tt.Extract(hi+k, lo+k, a.args[0])
			}
		}
	case OShl:
		if c := a.args[1]; c.op == OConst && c.ConstBig().IsInt64() {
			k := int(c.ConstBig().Int64())
			if lo >= k {
				return tt.Extract(hi-k, lo-k, a.args[0])
			}
			if hi < k {
				return tt.BV(w, 0)
			}
		}
	case OAnd, OOr, OXor:
		// bitwise ops distribute over extract when it exposes a constant side
		if a.args[0].op == OConst || a.args[1].op == OConst {
			return tt.BVBin(a.op, tt.Extract(hi, lo, a.args[0]), tt.Extract(hi, lo, a.args[1]))
		}
	case OIte:
		if a.args[1].op == OConst && a.args[2].op == OConst {
			return tt.Ite(a.args[0], tt.Extract(hi, lo, a.args[1]), tt.Extract(hi, lo, a.args[2]))
		}
	}
	return tt.mk(&Term{op: OExtract, sort: BVSort(w), args: []*Term{a}, p1: hi, p2: lo})
}

func (tt *TermTable) ZExt(a *Term, toW int) *Term {
	if toW == a.sort.W {
		return a
	}
	if toW < a.sort.W {
		return tt.Extract(toW-1, 0, a)
	}
	if a.op == OConst {
		return tt.BVBig(toW, a.ConstBig())
	}
	if a.op == OZExt {
		return tt.ZExt(a.args[0], toW)
	}
	return tt.mk(&Term{op: OZExt, sort: BVSort(toW), args: []*Term{a}, p1: toW - a.sort.W})
}

func (tt *TermTable) SExt(a *Term, toW int) *Term {
	if toW == a.sort.W {
		return a
	}
	if toW < a.sort.W {
		return tt.Extract(toW-1, 0, a)
	}
	if a.op == OConst {
		return tt.BVBig(toW, a.ConstSigned())
	}
	return tt.mk(&Term{op: OSExt, sort: BVSort(toW), args: []*Term{a}, p1: toW - a.sort.W})
}

func (tt *TermTable) Concat(hi, lo *Term) *Term {
	w := hi.sort.W + lo.sort.W
	if bothConst(hi, lo) {
		v := new(big.Int).Lsh(hi.ConstBig(), uint(lo.sort.W))
		v.Or(v, lo.ConstBig())
		return tt.BVBig(w, v)
	}
	// concat(extract[h:m+1] x, extract[m:l] x) = extract[h:l] x
	if hi.op == OExtract && lo.op == OExtract && hi.args[0] == lo.args[0] && hi.p2 == lo.p1+1 {
		return tt.Extract(hi.p1, lo.p2, hi.args[0])
	}
	// whole term followed by ... no; left-nested concat whose last piece merges with lo
	if hi.op == OConcat {
		l := hi.args[1]
		if (l.op == OExtract && lo.op == OExtract && l.args[0] == lo.args[0] && l.p2 == lo.p1+1) || bothConst(l, lo) {
			return tt.Concat(hi.args[0], tt.Concat(l, lo))
		}
	}
	return tt.bin(OConcat, BVSort(w), hi, lo)
}

// ---------- predicates

func (tt *TermTable) Eq(a, b *Term) *Term {
	if a.sort != b.sort {
		panic(fmt.Sprintf("Eq sort mismatch %v %v", a.sort, b.sort))
	}
	if a == b {
		return tt.True
	}
	if bothConst(a, b) {
		return tt.False // hash-consed: different consts
	}
	if a.sort.K == SInt && a.op == OBV2Nat && b.op == OBV2Nat {
		wa, wb := a.args[0].sort.W, b.args[0].sort.W
		w := wa
		if wb > w {
			w = wb
		}
		return tt.Eq(tt.ZExt(a.args[0], w), tt.ZExt(b.args[0], w))
	}
	if a.sort.K == SBool {
		if a.op == OConst {
			if a.ConstBool() {
				return b
			}
			return tt.Not(b)
		}
		if b.op == OConst {
			if b.ConstBool() {
				return a
			}
			return tt.Not(a)
		}
	}
	// eq(ite(c, k1, k2), k) with consts
	if b.op == OConst && a.op == OIte && a.args[1].op == OConst && a.args[2].op == OConst {
		return tt.Ite(a.args[0], tt.Eq(a.args[1], b), tt.Eq(a.args[2], b))
	}
	if a.op == OConst && b.op == OIte && b.args[1].op == OConst && b.args[2].op == OConst {
		return tt.Ite(b.args[0], tt.Eq(b.args[1], a), tt.Eq(b.args[2], a))
	}
	// eq(zext(x), const) -> eq(x, const') or false
	if a.op == OConst {
		a, b = b, a
	}
	// integer-encoded character: int2bv(8, k + d) == c  with 0 <= d <= ub small
	if b.op == OConst && a.op == OInt2BV && a.args[0].op == OIAdd && a.args[0].args[0].op == OConst {
		k := a.args[0].args[0].big
		d := a.args[0].args[1]
		if u := tt.ubound(d); u != nil && k.Sign() >= 0 && new(big.Int).Add(k, u).BitLen() <= a.sort.W {
			diff := new(big.Int).Sub(b.ConstBig(), k)
			if diff.Sign() < 0 || diff.Cmp(u) > 0 {
				return tt.False
			}
			return tt.Eq(d, tt.Int(diff))
		}
	}
	if b.op == OConst && a.op == OZExt {
		iw := a.args[0].sort.W
		if b.ConstBig().BitLen() > iw {
			return tt.False
		}
		return tt.Eq(a.args[0], tt.BVBig(iw, b.ConstBig()))
	}
	// equality involving a concatenation decomposes into equalities of aligned slices
	// (identical slices fold away, so only the parts that really differ reach the solver)
	if a.op == OConcat || b.op == OConcat {
		if r := tt.eqConcat(a, b); r != nil {
			return r
		}
	}
	if a.id > b.id && b.op != OConst {
		a, b = b, a
	}
	return tt.bin(OEq, BoolSort, a, b)
}

func flattenConcat(t *Term, out *[]*Term) {
	if t.op == OConcat {
		flattenConcat(t.args[0], out)
		flattenConcat(t.args[1], out)
		return
	}
	*out = append(*out, t)
}

func (tt *TermTable) eqConcat(a, b *Term) *Term {
	var pa, pb []*Term
	flattenConcat(a, &pa)
	flattenConcat(b, &pb)
	if len(pa) == 1 && len(pb) == 1 {
		return nil
	}
	r := tt.True
	ia, ib := len(pa)-1, len(pb)-1
	// remaining (not yet consumed) low parts of the current pieces
	ca, cb := pa[ia], pb[ib]
	for {
		wa, wb := ca.sort.W, cb.sort.W
		n := wa
		if wb < n {
			n = wb
		}
		var e *Term
		la, lb := tt.Extract(n-1, 0, ca), tt.Extract(n-1, 0, cb)
		if la == lb {
			e = tt.True
		} else if la.op == OConst && lb.op == OConst {
			return tt.False
		} else if la.op == OConcat || lb.op == OConcat {
			// extraction re-created a concat (should not happen for leaves); fall back
			e = tt.bin(OEq, BoolSort, la, lb)
		} else {
			e = tt.Eq(la, lb)
		}
		if e == tt.False {
			return tt.False
		}
		r = tt.And(r, e)
		if wa > n {
			ca = tt.Extract(wa-1, n, ca)
		} else {
			ia--
			if ia >= 0 {
				ca = pa[ia]
			}
		}
		if wb > n {
			cb = tt.Extract(wb-1, n, cb)
		} else {
			ib--
			if ib >= 0 {
				cb = pb[ib]
			}
		}
		if ia < 0 || ib < 0 {
			break
		}
	}
	return r
}

func (tt *TermTable) Cmp(op Op, a, b *Term) *Term {
	if a.sort != b.sort || a.sort.K != SBV {
		panic(fmt.Sprintf("Cmp sort mismatch %v %v", a.sort, b.sort))
	}
	if bothConst(a, b) {
		var r bool
		switch op {
		case OUlt:
			r = a.ConstBig().Cmp(b.ConstBig()) < 0
		case OUle:
			r = a.ConstBig().Cmp(b.ConstBig()) <= 0
		case OSlt:
			r = a.ConstSigned().Cmp(b.ConstSigned()) < 0
		case OSle:
			r = a.ConstSigned().Cmp(b.ConstSigned()) <= 0
		}
		return tt.Bool(r)
	}
	if a == b {
		return tt.Bool(op == OUle || op == OSle)
	}
	if op == OUlt && b.op == OConst && b.ConstBig().Sign() == 0 {
		return tt.False
	}
	if op == OSlt && a.op == OZExt && b.op == OConst && b.ConstBig().Sign() == 0 {
		return tt.False
	}
	if op == OSle && b.op == OZExt && a.op == OConst && a.ConstBig().Sign() == 0 {
		return tt.True
	}
	if op == OUle && a.op == OConst && a.ConstBig().Sign() == 0 {
		return tt.True
	}
	// zext(x) <u const where const > max(x)
	if (op == OUlt || op == OUle) && b.op == OConst && a.op == OZExt {
		iw := a.args[0].sort.W
		if b.ConstBig().BitLen() > iw {
			return tt.True
		}
	}
	return tt.bin(op, BoolSort, a, b)
}

// ---------- bool

func (tt *TermTable) Not(a *Term) *Term {
	if a.sort.K != SBool {
		panic("Not of non-bool")
	}
	if a.op == OConst {
		return tt.Bool(!a.ConstBool())
	}
	if a.op == OBNot {
		return a.args[0]
	}
	return tt.un(OBNot, BoolSort, a)
}

func (tt *TermTable) And(a, b *Term) *Term {
	if a.op == OConst {
		if a.ConstBool() {
			return b
		}
		return tt.False
	}
	if b.op == OConst {
		if b.ConstBool() {
			return a
		}
		return tt.False
	}
	if a == b {
		return a
	}
	if tt.Not(a) == b {
		return tt.False
	}
	if a.id > b.id {
		a, b = b, a
	}
	return tt.bin(OBAnd, BoolSort, a, b)
}

func (tt *TermTable) Or(a, b *Term) *Term {
	if a.op == OConst {
		if a.ConstBool() {
			return tt.True
		}
		return b
	}
	if b.op == OConst {
		if b.ConstBool() {
			return tt.True
		}
		return a
	}
	if a == b {
		return a
	}
	if tt.Not(a) == b {
		return tt.True
	}
	if a.id > b.id {
		a, b = b, a
	}
	return tt.bin(OBOr, BoolSort, a, b)
}

func (tt *TermTable) AndN(ts []*Term) *Term {
	r := tt.True
	for _, t := range ts {
		r = tt.And(r, t)
	}
	return r
}

func (tt *TermTable) Ite(c, a, b *Term) *Term {
	if a.sort != b.sort {
		panic(fmt.Sprintf("Ite sort mismatch %v %v", a.sort, b.sort))
	}
	if c.op == OConst {
		if c.ConstBool() {
			return a
		}
		return b
	}
	if a == b {
		return a
	}
	if a.sort.K == SBool {
		if a.op == OConst && b.op == OConst {
			if a.ConstBool() {
				return c
			}
			return tt.Not(c)
		}
		if a.op == OConst {
			if a.ConstBool() {
				return tt.Or(c, b)
			}
			return tt.And(tt.Not(c), b)
		}
		if b.op == OConst {
			if b.ConstBool() {
				return tt.Or(tt.Not(c), a)
			}
			return tt.And(c, a)
		}
	}
	return tt.mk(&Term{op: OIte, sort: a.sort, args: []*Term{c, a, b}})
}

// ---------- int

func (tt *TermTable) IBin(op Op, a, b *Term) *Term {
	if a.sort.K != SInt || b.sort.K != SInt {
		panic("IBin of non-int")
	}
	if bothConst(a, b) {
		r := new(big.Int)
		switch op {
		case OIAdd:
			r.Add(a.big, b.big)
		case OISub:
			r.Sub(a.big, b.big)
		case OIMul:
			r.Mul(a.big, b.big)
		case OIDiv:
			if b.big.Sign() == 0 {
				goto nofold
			}
			// SMT-LIB div: floor if divisor>0, ceil if <0 == Euclidean division
			r.Div(a.big, b.big)
		case OIMod:
			if b.big.Sign() == 0 {
				goto nofold
			}
			r.Mod(a.big, b.big) // Euclidean modulus
		}
		return tt.Int(r)
	}
nofold:
	isC := func(t *Term, v int64) bool { return t.op == OConst && t.big.IsInt64() && t.big.Int64() == v }
	switch op {
	case OIAdd:
		if isC(a, 0) {
			return b
		}
		if isC(b, 0) {
			return a
		}
	case OISub:
		if isC(b, 0) {
			return a
		}
		if a == b {
			return tt.IntI(0)
		}
		if b.op == OConst && a.op == OIAdd && a.args[0].op == OConst {
			return tt.IBin(OIAdd, tt.Int(new(big.Int).Sub(a.args[0].big, b.big)), a.args[1])
		}
	case OIMul:
		if isC(a, 0) || isC(b, 0) {
			return tt.IntI(0)
		}
		if isC(a, 1) {
			return b
		}
		if isC(b, 1) {
			return a
		}
	case OIDiv:
		if isC(b, 1) {
			return a
		}
		if b.op == OConst && b.big.Sign() > 0 {
			if u := tt.ubound(a); u != nil && u.Cmp(b.big) < 0 {
				return tt.IntI(0)
			}
		}
	case OIMod:
		// (mod (mod x m) m) = (mod x m)
		if a.op == OIMod && a.args[1] == b {
			return a
		}
		// value already below the (positive constant) modulus
		if b.op == OConst && b.big.Sign() > 0 {
			if u := tt.ubound(a); u != nil && u.Cmp(b.big) < 0 {
				return a
			}
		}
	}
	if op == OIMul && (a.op == OIAdd || b.op == OIAdd) {
		if r := tt.distribute(a, b); r != nil {
			return r
		}
	}
	if (op == OIAdd || op == OIMul) && (b.op == OConst || (a.op != OConst && a.id > b.id)) {
		a, b = b, a
	}
	return tt.bin(op, IntSort, a, b)
}

// linear form: sum of coef*atom + konst
type linTerm struct {
	atom *Term
	coef *big.Int
}

func (tt *TermTable) linearize(t *Term, scale *big.Int, out *[]linTerm, konst *big.Int, depth int) {
	switch {
	case t.op == OConst:
		konst.Add(konst, new(big.Int).Mul(scale, t.big))
	case t.op == OIAdd && depth < 64:
		tt.linearize(t.args[0], scale, out, konst, depth+1)
		tt.linearize(t.args[1], scale, out, konst, depth+1)
	case t.op == OIMul && t.args[0].op == OConst && depth < 64:
		tt.linearize(t.args[1], new(big.Int).Mul(scale, t.args[0].big), out, konst, depth+1)
	case t.op == OIMul && t.args[1].op == OConst && depth < 64:
		tt.linearize(t.args[0], new(big.Int).Mul(scale, t.args[1].big), out, konst, depth+1)
	default:
		*out = append(*out, linTerm{t, scale})
	}
}

// distribute expands (sum)*(sum) into a sum of atom products (keeps the queries of limb
// arithmetic linear in the partial products).
func (tt *TermTable) distribute(a, b *Term) *Term {
	var la, lb []linTerm
	ka, kb := new(big.Int), new(big.Int)
	tt.linearize(a, big.NewInt(1), &la, ka, 0)
	tt.linearize(b, big.NewInt(1), &lb, kb, 0)
	if len(la) > 8 || len(lb) > 8 || (len(la) <= 1 && len(lb) <= 1) {
		return nil
	}
	if ka.Sign() != 0 {
		la = append(la, linTerm{nil, ka})
	}
	if kb.Sign() != 0 {
		lb = append(lb, linTerm{nil, kb})
	}
	r := tt.IntI(0)
	for _, x := range la {
		for _, y := range lb {
			c := tt.Int(new(big.Int).Mul(x.coef, y.coef))
			var p *Term
			switch {
			case x.atom == nil && y.atom == nil:
				p = c
			case x.atom == nil:
				p = tt.scaleAtom(c, y.atom)
			case y.atom == nil:
				p = tt.scaleAtom(c, x.atom)
			default:
				u, v := x.atom, y.atom
				if u.id > v.id {
					u, v = v, u
				}
				p = tt.scaleAtom(c, tt.bin(OIMul, IntSort, u, v))
			}
			r = tt.IBin(OIAdd, r, p)
		}
	}
	return r
}

func (tt *TermTable) scaleAtom(c, atom *Term) *Term {
	if c.big.Sign() == 0 {
		return tt.IntI(0)
	}
	if c.big.IsInt64() && c.big.Int64() == 1 {
		return atom
	}
	return tt.bin(OIMul, IntSort, c, atom)
}

// ubound returns an upper bound of t if t is known to be non-negative, else nil.
func (tt *TermTable) ubound(t *Term) *big.Int {
	if t.ubOk {
		return t.ub
	}
	var r *big.Int
	switch t.op {
	case OConst:
		if t.big.Sign() >= 0 {
			r = t.big
		}
	case OVar:
		if b, ok := tt.rangeVars[t]; ok {
			if b < 0 {
				r = big.NewInt(int64(-b)) // explicit maximum
			} else {
				r = new(big.Int).Sub(pow2(b), big.NewInt(1))
			}
		}
	case OBV2Nat:
		r = new(big.Int).Sub(pow2(t.args[0].sort.W), big.NewInt(1))
	case OIAdd:
		a, b := tt.ubound(t.args[0]), tt.ubound(t.args[1])
		if a != nil && b != nil {
			r = new(big.Int).Add(a, b)
		}
	case OIMul:
		a, b := tt.ubound(t.args[0]), tt.ubound(t.args[1])
		if a != nil && b != nil {
			r = new(big.Int).Mul(a, b)
		}
	case OIDiv:
		a := tt.ubound(t.args[0])
		if a != nil && t.args[1].op == OConst && t.args[1].big.Sign() > 0 {
			r = new(big.Int).Div(a, t.args[1].big)
		}
	case OIMod:
		if t.args[1].op == OConst && t.args[1].big.Sign() > 0 {
			r = new(big.Int).Sub(t.args[1].big, big.NewInt(1))
			if a := tt.ubound(t.args[0]); a != nil && a.Cmp(r) < 0 {
				r = a
			}
		}
	case OIAbs:
		r = tt.ubound(t.args[0])
	case OIte:
		a, b := tt.ubound(t.args[1]), tt.ubound(t.args[2])
		if a != nil && b != nil {
			r = a
			if b.Cmp(a) > 0 {
				r = b
			}
		}
	}
	t.ub, t.ubOk = r, true
	return r
}

func (tt *TermTable) INeg(a *Term) *Term {
	if a.op == OConst {
		return tt.Int(new(big.Int).Neg(a.big))
	}
	if a.op == OINeg {
		return a.args[0]
	}
	return tt.un(OINeg, IntSort, a)
}

func (tt *TermTable) IAbs(a *Term) *Term {
	if a.op == OConst {
		return tt.Int(new(big.Int).Abs(a.big))
	}
	if a.op == OBV2Nat || a.op == OIAbs || a.op == OIMod {
		return a
	}
	if tt.pathNonNeg[a] || tt.ubound(a) != nil {
		return a
	}
	return tt.un(OIAbs, IntSort, a)
}

func (tt *TermTable) ICmp(op Op, a, b *Term) *Term {
	if bothConst(a, b) {
		c := a.big.Cmp(b.big)
		if op == OILe {
			return tt.Bool(c <= 0)
		}
		return tt.Bool(c < 0)
	}
	if a == b {
		return tt.Bool(op == OILe)
	}
	if a.op == OBV2Nat && b.op == OBV2Nat {
		wa, wb := a.args[0].sort.W, b.args[0].sort.W
		w := wa
		if wb > w {
			w = wb
		}
		if op == OILe {
			return tt.Cmp(OUle, tt.ZExt(a.args[0], w), tt.ZExt(b.args[0], w))
		}
		return tt.Cmp(OUlt, tt.ZExt(a.args[0], w), tt.ZExt(b.args[0], w))
	}
	// comparisons of bv2nat(x) with a constant stay in the bit-vector theory
	if a.op == OBV2Nat && b.op == OConst {
		x := a.args[0]
		w := x.sort.W
		if b.big.Sign() < 0 {
			return tt.False
		}
		if b.big.BitLen() > w {
			return tt.True
		}
		c := tt.BVBig(w, b.big)
		if op == OILe {
			return tt.Cmp(OUle, x, c)
		}
		return tt.Cmp(OUlt, x, c)
	}
	if b.op == OBV2Nat && a.op == OConst {
		x := b.args[0]
		w := x.sort.W
		if a.big.Sign() < 0 {
			return tt.True
		}
		if a.big.BitLen() > w {
			return tt.False
		}
		c := tt.BVBig(w, a.big)
		if op == OILe {
			return tt.Cmp(OUle, c, x)
		}
		return tt.Cmp(OUlt, c, x)
	}
	return tt.bin(op, BoolSort, a, b)
}

func (tt *TermTable) BV2Nat(a *Term) *Term {
	if a.op == OConst {
		return tt.Int(a.ConstBig())
	}
	if a.op == OInt2BV {
		m := new(big.Int).Lsh(big.NewInt(1), uint(a.sort.W))
		if u, ok := tt.pathUB[a.args[0]]; ok && tt.pathNonNeg[a.args[0]] && u.Cmp(m) < 0 {
			return a.args[0]
		}
		return tt.IBin(OIMod, a.args[0], tt.Int(m))
	}
	if a.op == OZExt {
		return tt.BV2Nat(a.args[0])
	}
	if a.op == OConcat && tt.IntMode {
		hi := tt.BV2Nat(a.args[0])
		lo := tt.BV2Nat(a.args[1])
		return tt.IBin(OIAdd, tt.IBin(OIMul, hi, tt.Int(new(big.Int).Lsh(big.NewInt(1), uint(a.args[1].sort.W)))), lo)
	}
	return tt.un(OBV2Nat, IntSort, a)
}

func (tt *TermTable) Int2BV(w int, a *Term) *Term {
	if a.op == OConst {
		return tt.BVBig(w, a.big)
	}
	if a.op == OBV2Nat && a.args[0].sort.W == w {
		return a.args[0]
	}
	if a.op == OBV2Nat && a.args[0].sort.W < w {
		return tt.ZExt(a.args[0], w)
	}
	if a.op == OBV2Nat && a.args[0].sort.W > w {
		return tt.Extract(w-1, 0, a.args[0])
	}
	return tt.mk(&Term{op: OInt2BV, sort: BVSort(w), args: []*Term{a}, p1: w})
}

// ---------- uninterpreted functions

func (tt *TermTable) App(name string, ret Sort, args ...*Term) *Term {
	sig, ok := tt.ufs[name]
	if !ok {
		sig = &ufSig{name: name, ret: ret}
		for _, a := range args {
			sig.args = append(sig.args, a.sort)
		}
		tt.ufs[name] = sig
	} else {
		if len(sig.args) != len(args) || sig.ret != ret {
			panic("UF " + name + " used with different signature")
		}
	}
	return tt.mk(&Term{op: OApp, sort: ret, args: append([]*Term(nil), args...), name: name})
}

// ---------- printing

func (t *Term) constSMT() string {
	switch t.sort.K {
	case SBool:
		if t.cv != 0 {
			return "true"
		}
		return "false"
	case SBV:
		w := t.sort.W
		v := t.ConstBig()
		if w%4 == 0 {
			s := v.Text(16)
			return "#x" + strings.Repeat("0", w/4-len(s)) + s
		}
		s := v.Text(2)
		return "#b" + strings.Repeat("0", w-len(s)) + s
	case SReal:
		n, d := t.rat.Num(), t.rat.Denom()
		ns := n.String()
		if n.Sign() < 0 {
			ns = "(- " + new(big.Int).Neg(n).String() + ")"
		}
		if d.IsInt64() && d.Int64() == 1 {
			return "(to_real " + ns + ")"
		}
		return "(/ (to_real " + ns + ") (to_real " + d.String() + "))"
	default:
		if t.big.Sign() < 0 {
			return "(- " + new(big.Int).Neg(t.big).String() + ")"
		}
		return t.big.String()
	}
}

// ---------- reals (used by the big.Float rounding model)

func (tt *TermTable) Real(r *big.Rat) *Term {
	return tt.mk(&Term{op: OConst, sort: RealSort, rat: new(big.Rat).Set(r), name: "r" + r.String()})
}

func (tt *TermTable) ToReal(a *Term) *Term {
	if a.op == OConst {
		return tt.Real(new(big.Rat).SetInt(a.big))
	}
	return tt.un(OToReal, RealSort, a)
}

// ToInt is floor.
func (tt *TermTable) ToInt(a *Term) *Term {
	if a.op == OConst {
		n, d := a.rat.Num(), a.rat.Denom()
		return tt.Int(new(big.Int).Div(n, d)) // Euclidean with positive d = floor
	}
	if a.op == OToReal {
		return a.args[0]
	}
	return tt.un(OToInt, IntSort, a)
}

// asIntReal: if the real term is to_real of an integer term (or an integral constant), that integer term
func (tt *TermTable) asIntReal(a *Term) *Term {
	if a.op == OToReal {
		return a.args[0]
	}
	if a.op == OConst && a.rat.IsInt() {
		return tt.Int(a.rat.Num())
	}
	return nil
}

func (tt *TermTable) RBin(op Op, a, b *Term) *Term {
	if a.sort.K != SReal || b.sort.K != SReal {
		panic("RBin of non-real")
	}
	// integer-valued operands: stay in integer arithmetic (to_real distributes over + - *)
	if op == OIAdd || op == OISub || op == OIMul {
		if !(a.op == OConst && b.op == OConst) {
			if ia, ib := tt.asIntReal(a), tt.asIntReal(b); ia != nil && ib != nil {
				return tt.ToReal(tt.IBin(op, ia, ib))
			}
		}
	}
	if bothConst(a, b) {
		r := new(big.Rat)
		switch op {
		case OIAdd:
			r.Add(a.rat, b.rat)
		case OISub:
			r.Sub(a.rat, b.rat)
		case OIMul:
			r.Mul(a.rat, b.rat)
		case ORDiv:
			if b.rat.Sign() == 0 {
				return tt.bin(op, RealSort, a, b)
			}
			r.Quo(a.rat, b.rat)
		}
		return tt.Real(r)
	}
	return tt.bin(op, RealSort, a, b)
}

func (tt *TermTable) RCmp(op Op, a, b *Term) *Term {
	if bothConst(a, b) {
		c := a.rat.Cmp(b.rat)
		if op == OILe {
			return tt.Bool(c <= 0)
		}
		return tt.Bool(c < 0)
	}
	return tt.bin(op, BoolSort, a, b)
}

func smtName(n string) string { return "|" + n + "|" }

// ref returns how a term is referred to inside another term's definition.
func (t *Term) ref() string {
	switch t.op {
	case OConst:
		return t.constSMT()
	case OVar:
		return smtName(t.name)
	}
	return fmt.Sprintf("t%d", t.id)
}

// body returns the SMT-LIB expression for a compound term using refs for children.
func (t *Term) body() string {
	var sb strings.Builder
	switch t.op {
	case OExtract:
		fmt.Fprintf(&sb, "((_ extract %d %d) %s)", t.p1, t.p2, t.args[0].ref())
		return sb.String()
	case OZExt:
		fmt.Fprintf(&sb, "((_ zero_extend %d) %s)", t.p1, t.args[0].ref())
		return sb.String()
	case OSExt:
		fmt.Fprintf(&sb, "((_ sign_extend %d) %s)", t.p1, t.args[0].ref())
		return sb.String()
	case OInt2BV:
		fmt.Fprintf(&sb, "((_ int2bv %d) %s)", t.p1, t.args[0].ref())
		return sb.String()
	case OApp:
		if len(t.args) == 0 {
			return smtName(t.name)
		}
		sb.WriteString("(" + smtName(t.name))
	default:
		sb.WriteString("(" + opNames[t.op])
	}
	for _, a := range t.args {
		sb.WriteByte(' ')
		sb.WriteString(a.ref())
	}
	sb.WriteByte(')')
	return sb.String()
}

// CollectDefs appends to out, in dependency order, all compound sub-terms and variables of t
// not yet in seen.
func CollectDefs(t *Term, seen map[int]bool, out *[]*Term) {
	if seen[t.id] {
		return
	}
	// iterative DFS to avoid deep recursion
	type fr struct {
		t *Term
		i int
	}
	st := []fr{{t, 0}}
	for len(st) > 0 {
		f := &st[len(st)-1]
		if seen[f.t.id] {
			st = st[:len(st)-1]
			continue
		}
		if f.i < len(f.t.args) {
			c := f.t.args[f.i]
			f.i++
			if !seen[c.id] {
				st = append(st, fr{c, 0})
			}
			continue
		}
		seen[f.t.id] = true
		if f.t.op != OConst {
			*out = append(*out, f.t)
		}
		st = st[:len(st)-1]
	}
}

// ---------- evaluation under a model (for translator validation)

type Model map[string]*big.Int // var name -> value (Bool: 0/1, BV: unsigned, Int: signed)

func euclidDiv(a, b *big.Int) *big.Int { return new(big.Int).Div(a, b) }

// Eval evaluates t under m; variables not in m evaluate to 0. UF applications cannot be
// evaluated: ok=false.
func (tt *TermTable) Eval(t *Term, m Model, cache map[int]*Term) (*Term, bool) {
	if t.op == OConst {
		return t, true
	}
	if c, ok := cache[t.id]; ok {
		return c, c != nil
	}
	var r *Term
	switch t.op {
	case OVar:
		v := m[t.name]
		if v == nil {
			v = new(big.Int)
		}
		switch t.sort.K {
		case SBool:
			r = tt.Bool(v.Sign() != 0)
		case SBV:
			r = tt.BVBig(t.sort.W, v)
		default:
			r = tt.Int(v)
		}
	case OApp:
		if t.name == "EXP256" {
			b, ok1 := tt.Eval(t.args[0], m, cache)
			e, ok2 := tt.Eval(t.args[1], m, cache)
			if ok1 && ok2 {
				r = tt.BVBig(256, new(big.Int).Exp(b.ConstBig(), e.ConstBig(), new(big.Int).Lsh(big.NewInt(1), 256)))
				break
			}
		}
		if strings.HasPrefix(t.name, "H:") {
			if av, ok := tt.Eval(t.args[0], m, cache); ok {
				r = evalHashApp(tt, t.name, av)
				break
			}
		}
		key := "app:" + t.name
		for _, a := range t.args {
			av, ok := tt.Eval(a, m, cache)
			if !ok {
				cache[t.id] = nil
				return nil, false
			}
			key += "," + av.constSMT()
		}
		v, ok := m[key]
		if !ok {
			cache[t.id] = nil
			return nil, false
		}
		switch t.sort.K {
		case SBool:
			r = tt.Bool(v.Sign() != 0)
		case SBV:
			r = tt.BVBig(t.sort.W, v)
		default:
			r = tt.Int(v)
		}
	default:
		args := make([]*Term, len(t.args))
		for i, a := range t.args {
			av, ok := tt.Eval(a, m, cache)
			if !ok {
				cache[t.id] = nil
				return nil, false
			}
			args[i] = av
		}
		r = tt.rebuild(t, args)
		if r.op != OConst {
			// e.g. division by zero in Int theory: unspecified
			cache[t.id] = nil
			return nil, false
		}
	}
	cache[t.id] = r
	return r, true
}

func (tt *TermTable) rebuild(t *Term, a []*Term) *Term {
	if t.sort.K == SReal || t.op == OToInt || t.op == OToReal || t.op == ORDiv {
		return t // reals are not evaluated (big.Float model): observation cannot be predicted
	}
	for _, x := range a {
		if x.sort.K == SReal {
			return t
		}
	}
	switch t.op {
	case OAdd, OSub, OMul, OUDiv, OURem, OSDiv, OSRem, OAnd, OOr, OXor, OShl, OLShr, OAShr:
		return tt.BVBin(t.op, a[0], a[1])
	case ONot:
		return tt.BVNot(a[0])
	case ONeg:
		return tt.BVNeg(a[0])
	case OConcat:
		return tt.Concat(a[0], a[1])
	case OExtract:
		return tt.Extract(t.p1, t.p2, a[0])
	case OZExt:
		return tt.ZExt(a[0], t.sort.W)
	case OSExt:
		return tt.SExt(a[0], t.sort.W)
	case OEq:
		return tt.Eq(a[0], a[1])
	case OUlt, OUle, OSlt, OSle:
		return tt.Cmp(t.op, a[0], a[1])
	case OBNot:
		return tt.Not(a[0])
	case OBAnd:
		return tt.And(a[0], a[1])
	case OBOr:
		return tt.Or(a[0], a[1])
	case OIte:
		return tt.Ite(a[0], a[1], a[2])
	case OIAdd, OISub, OIMul, OIDiv, OIMod:
		return tt.IBin(t.op, a[0], a[1])
	case OINeg:
		return tt.INeg(a[0])
	case OIAbs:
		return tt.IAbs(a[0])
	case OILe, OILt:
		return tt.ICmp(t.op, a[0], a[1])
	case OInt2BV:
		return tt.Int2BV(t.p1, a[0])
	case OBV2Nat:
		return tt.BV2Nat(a[0])
	}
	panic("rebuild: op")
}

// Vars returns the names of free variables of t (sorted).
func Vars(t *Term, seen map[int]bool, acc map[string]*Term) {
	if seen[t.id] {
		return
	}
	seen[t.id] = true
	if t.op == OVar {
		acc[t.name] = t
	}
	for _, a := range t.args {
		Vars(a, seen, acc)
	}
}

func sortedKeys(m map[string]*Term) []string {
	ks := make([]string, 0, len(m))
	for k := range m {
		ks = append(ks, k)
	}
	sort.Strings(ks)
	return ks
}

func (t *Term) String() string {
	if t.op == OConst || t.op == OVar {
		return t.ref()
	}
	return t.debugString(3)
}

func (t *Term) debugString(depth int) string {
	if t.op == OConst || t.op == OVar {
		return t.ref()
	}
	if depth == 0 {
		return "…"
	}
	var sb strings.Builder
	switch t.op {
	case OExtract:
		fmt.Fprintf(&sb, "(extract[%d:%d]", t.p1, t.p2)
	case OZExt:
		fmt.Fprintf(&sb, "(zext%d", t.p1)
	case OSExt:
		fmt.Fprintf(&sb, "(sext%d", t.p1)
	case OInt2BV:
		fmt.Fprintf(&sb, "(int2bv%d", t.p1)
	case OApp:
		sb.WriteString("(" + t.name)
	default:
		sb.WriteString("(" + opNames[t.op])
	}
	for _, a := range t.args {
		sb.WriteByte(' ')
		sb.WriteString(a.debugString(depth - 1))
	}
	sb.WriteByte(')')
	return sb.String()
}
