package main

// reflect-lite: reflect.Type ≙ go/types.Type of the concrete Go type, reflect.Value ≙
// (type, reference into interpreter storage). All type computation is concrete.

import (
	"fmt"
	"go/token"
	"go/types"
	"reflect"

	"golang.org/x/tools/go/ssa"
)

type RType struct{ t types.Type }

type RValue struct {
	t     types.Type
	ptr   *Ptr  // location of the value (if indirect)
	val   Value // the value itself (if not indirect)
	addr  bool  // addressable / settable
	valid bool
}

var rtypeMarker = types.NewNamed(types.NewTypeName(token.NoPos, nil, "reflect.rtype", nil), types.NewStruct(nil, nil), nil)

func mkRTypeIface(t types.Type) Value {
	if t == nil {
		return Iface{}
	}
	return Iface{t: rtypeMarker, v: RType{t}}
}

func rtypeOf(v Value) types.Type {
	i := v.(Iface)
	if i.t == nil {
		panic(unsupported{"nil reflect.Type"})
	}
	return i.v.(RType).t
}

func kindOf(t types.Type) reflect.Kind {
	switch u := t.Underlying().(type) {
	case *types.Basic:
		switch u.Kind() {
		case types.Bool, types.UntypedBool:
			return reflect.Bool
		case types.Int, types.UntypedInt:
			return reflect.Int
		case types.Int8:
			return reflect.Int8
		case types.Int16:
			return reflect.Int16
		case types.Int32, types.UntypedRune:
			return reflect.Int32
		case types.Int64:
			return reflect.Int64
		case types.Uint:
			return reflect.Uint
		case types.Uint8:
			return reflect.Uint8
		case types.Uint16:
			return reflect.Uint16
		case types.Uint32:
			return reflect.Uint32
		case types.Uint64:
			return reflect.Uint64
		case types.Uintptr:
			return reflect.Uintptr
		case types.Float32:
			return reflect.Float32
		case types.Float64, types.UntypedFloat:
			return reflect.Float64
		case types.Complex64:
			return reflect.Complex64
		case types.Complex128:
			return reflect.Complex128
		case types.String, types.UntypedString:
			return reflect.String
		case types.UnsafePointer:
			return reflect.UnsafePointer
		}
	case *types.Array:
		return reflect.Array
	case *types.Chan:
		return reflect.Chan
	case *types.Signature:
		return reflect.Func
	case *types.Interface:
		return reflect.Interface
	case *types.Map:
		return reflect.Map
	case *types.Pointer:
		return reflect.Ptr
	case *types.Slice:
		return reflect.Slice
	case *types.Struct:
		return reflect.Struct
	}
	return reflect.Invalid
}

func (in *Interp) rget(v RValue) Value {
	if !v.valid {
		in.goPanic("reflect: call of method on zero Value")
	}
	if v.ptr != nil {
		return in.load(v.ptr)
	}
	return v.val
}

func (in *Interp) rset(v RValue, x Value) {
	if !v.valid || v.ptr == nil || !v.addr {
		in.goPanic("reflect: reflect.Value.Set using unaddressable value")
	}
	in.store(v.ptr, x)
}

func (in *Interp) rvalueOf(i Iface) RValue {
	if i.t == nil {
		return RValue{}
	}
	if rt, ok := i.v.(RType); ok {
		_ = rt
		panic(unsupported{"reflect.ValueOf(reflect.Type)"})
	}
	return RValue{t: i.t, val: i.v, valid: true}
}

func (in *Interp) rkindTerm(k reflect.Kind) *Term { return in.mkU64(uint64(k)) }

func elemType(t types.Type) types.Type {
	switch u := t.Underlying().(type) {
	case *types.Pointer:
		return u.Elem()
	case *types.Slice:
		return u.Elem()
	case *types.Array:
		return u.Elem()
	case *types.Map:
		return u.Elem()
	case *types.Chan:
		return u.Elem()
	}
	panic(unsupported{"reflect: Elem of " + t.String()})
}

// structFieldValue builds a reflect.StructField value.
func (in *Interp) structFieldValue(st *types.Struct, i int) Value {
	pkg := in.prog.ImportedPackage("reflect")
	sft := pkg.Type("StructField").Type()
	s := in.zero(sft).(*Struct)
	ust := sft.Underlying().(*types.Struct)
	f := st.Field(i)
	for k := 0; k < ust.NumFields(); k++ {
		switch ust.Field(k).Name() {
		case "Name":
			s.F[k] = f.Name()
		case "PkgPath":
			if !f.Exported() && f.Pkg() != nil {
				s.F[k] = f.Pkg().Path()
			} else {
				s.F[k] = ""
			}
		case "Type":
			s.F[k] = mkRTypeIface(f.Type())
		case "Tag":
			s.F[k] = st.Tag(i)
		case "Anonymous":
			s.F[k] = in.mkBool(f.Embedded())
		case "Index":
			s.F[k] = in.mkSlice(types.Typ[types.Int], []Value{in.mkInt(int64(i))})
		}
	}
	return s
}

// reflectMethod resolves interface method calls on reflect.Type values.
func reflectMethod(in *Interp, recv Iface, m *types.Func) Value {
	rt, ok := recv.v.(RType)
	if !ok {
		return nil
	}
	t := rt.t
	name := m.Name()
	h := func(f func(in *Interp, a []Value) Value) Value {
		return &BoundIntrinsic{name: "reflect.Type." + name, fn: func(in *Interp, fr *frame, a []Value, _ *ssa.CallCommon) Value {
			in.stubsUsed["reflect.Type."+name]++
			return f(in, a)
		}}
	}
	switch name {
	case "Kind":
		return h(func(in *Interp, a []Value) Value { return in.rkindTerm(kindOf(t)) })
	case "Elem":
		return h(func(in *Interp, a []Value) Value { return mkRTypeIface(elemType(t)) })
	case "Key":
		return h(func(in *Interp, a []Value) Value { return mkRTypeIface(t.Underlying().(*types.Map).Key()) })
	case "Len":
		return h(func(in *Interp, a []Value) Value { return in.mkInt(t.Underlying().(*types.Array).Len()) })
	case "Name":
		return h(func(in *Interp, a []Value) Value {
			switch n := types.Unalias(t).(type) {
			case *types.Named:
				return n.Obj().Name()
			case *types.Basic:
				return n.Name()
			}
			return ""
		})
	case "PkgPath":
		return h(func(in *Interp, a []Value) Value {
			if n, ok := types.Unalias(t).(*types.Named); ok && n.Obj().Pkg() != nil {
				return n.Obj().Pkg().Path()
			}
			return ""
		})
	case "String":
		return h(func(in *Interp, a []Value) Value {
			return types.TypeString(t, func(p *types.Package) string { return p.Name() })
		})
	case "NumField":
		return h(func(in *Interp, a []Value) Value { return in.mkInt(int64(t.Underlying().(*types.Struct).NumFields())) })
	case "Field":
		return h(func(in *Interp, a []Value) Value {
			return in.structFieldValue(t.Underlying().(*types.Struct), in.argInt(a[0]))
		})
	case "NumMethod":
		return h(func(in *Interp, a []Value) Value {
			if it, ok := t.Underlying().(*types.Interface); ok {
				return in.mkInt(int64(it.NumMethods()))
			}
			ms := in.prog.MethodSets.MethodSet(t)
			n := 0
			for i := 0; i < ms.Len(); i++ {
				if ms.At(i).Obj().Exported() {
					n++
				}
			}
			return in.mkInt(int64(n))
		})
	case "Implements":
		return h(func(in *Interp, a []Value) Value {
			u := rtypeOf(a[0])
			it, ok := u.Underlying().(*types.Interface)
			if !ok {
				in.goPanic("reflect: non-interface type passed to Type.Implements")
			}
			return in.mkBool(types.Implements(t, it))
		})
	case "AssignableTo":
		return h(func(in *Interp, a []Value) Value { return in.mkBool(types.AssignableTo(t, rtypeOf(a[0]))) })
	case "ConvertibleTo":
		return h(func(in *Interp, a []Value) Value { return in.mkBool(types.ConvertibleTo(t, rtypeOf(a[0]))) })
	case "Comparable":
		return h(func(in *Interp, a []Value) Value { return in.mkBool(types.Comparable(t)) })
	case "Bits":
		return h(func(in *Interp, a []Value) Value {
			b := basicOf(t)
			if b.Info()&types.IsInteger != 0 {
				return in.mkInt(int64(in.intWidth(b)))
			}
			if b.Kind() == types.Float32 {
				return in.mkInt(32)
			}
			return in.mkInt(64)
		})
	case "Size":
		return h(func(in *Interp, a []Value) Value {
			return in.mkU64(uint64(types.SizesFor("gc", "amd64").Sizeof(t)))
		})
	}
	return h(func(in *Interp, a []Value) Value { panic(unsupported{"reflect.Type." + name}) })
}

func (in *Interp) rIsNil(v RValue) bool {
	x := in.rget(v)
	switch y := x.(type) {
	case *Ptr:
		return IsNilPtr(y)
	case Slice:
		return y.arr == nil
	case *MapV:
		return y == nil
	case Iface:
		return y.t == nil
	case *ssa.Function:
		return y == nil
	case *Closure:
		return y == nil
	case *ChanV:
		return y == nil
	}
	in.goPanic("reflect: call of reflect.Value.IsNil on non-nillable Value")
	return false
}

func (in *Interp) rLen(v RValue) int {
	x := in.rget(v)
	switch y := x.(type) {
	case Slice:
		return y.ln
	case *Array:
		return len(y.E)
	case string:
		return len(y)
	case *SymStr:
		return len(y.B)
	case *MapV:
		if y == nil {
			return 0
		}
		return y.n
	}
	in.goPanic("reflect: call of reflect.Value.Len on " + v.t.String())
	return 0
}

func (in *Interp) rIndex(v RValue, i int) RValue {
	switch u := v.t.Underlying().(type) {
	case *types.Array:
		if i < 0 || int64(i) >= u.Len() {
			in.goPanic("reflect: array index out of range")
		}
		if v.ptr != nil {
			return RValue{t: u.Elem(), ptr: v.ptr.sub(i), addr: v.addr, valid: true}
		}
		return RValue{t: u.Elem(), val: copyVal(v.val.(*Array).E[i]), valid: true}
	case *types.Slice:
		s := in.rget(v).(Slice)
		if i < 0 || i >= s.ln {
			in.goPanic("reflect: slice index out of range")
		}
		return RValue{t: u.Elem(), ptr: (&Ptr{obj: s.arr}).sub(s.off + i), addr: true, valid: true}
	case *types.Basic:
		bs := in.strBytes(in.rget(v))
		if i < 0 || i >= len(bs) {
			in.goPanic("reflect: string index out of range")
		}
		return RValue{t: types.Typ[types.Uint8], val: bs[i], valid: true}
	}
	in.goPanic("reflect: call of reflect.Value.Index on " + v.t.String())
	return RValue{}
}

// wrapFor converts x of type xt for storage in a location of type dst (interface wrapping).
func wrapFor(dst, xt types.Type, x Value) Value {
	if _, isItf := dst.Underlying().(*types.Interface); isItf {
		if _, srcItf := xt.Underlying().(*types.Interface); !srcItf {
			return Iface{t: xt, v: x}
		}
	}
	return x
}

func init() {
	rf := func(n string, h intrinsic) { reg("reflect."+n, h) }
	rv := func(n string, h func(in *Interp, v RValue, a []Value) Value) {
		reg("(reflect.Value)."+n, func(in *Interp, fr *frame, a []Value, _ *ssa.CallCommon) Value {
			return h(in, a[0].(RValue), a[1:])
		})
	}
	rf("TypeOf", func(in *Interp, fr *frame, a []Value, _ *ssa.CallCommon) Value {
		i := a[0].(Iface)
		if i.t == nil {
			return Iface{}
		}
		if _, ok := i.v.(RType); ok {
			panic(unsupported{"reflect.TypeOf(reflect.Type)"})
		}
		return mkRTypeIface(i.t)
	})
	rf("ValueOf", func(in *Interp, fr *frame, a []Value, _ *ssa.CallCommon) Value {
		return in.rvalueOf(a[0].(Iface))
	})
	ptrTo := func(in *Interp, fr *frame, a []Value, _ *ssa.CallCommon) Value {
		return mkRTypeIface(types.NewPointer(rtypeOf(a[0])))
	}
	rf("PtrTo", ptrTo)
	rf("PointerTo", ptrTo)
	rf("SliceOf", func(in *Interp, fr *frame, a []Value, _ *ssa.CallCommon) Value {
		return mkRTypeIface(types.NewSlice(rtypeOf(a[0])))
	})
	rf("New", func(in *Interp, fr *frame, a []Value, _ *ssa.CallCommon) Value {
		t := rtypeOf(a[0])
		p := &Ptr{obj: in.newObj(t, in.zero(t), "reflect.New")}
		return RValue{t: types.NewPointer(t), val: p, valid: true}
	})
	rf("Zero", func(in *Interp, fr *frame, a []Value, _ *ssa.CallCommon) Value {
		t := rtypeOf(a[0])
		return RValue{t: t, val: in.zero(t), valid: true}
	})
	rf("MakeSlice", func(in *Interp, fr *frame, a []Value, _ *ssa.CallCommon) Value {
		t := rtypeOf(a[0])
		ln, cp := in.argInt(a[1]), in.argInt(a[2])
		if ln < 0 || cp < ln {
			in.goPanic("reflect.MakeSlice: bad len/cap")
		}
		if cp > in.opts.MaxAlloc {
			panic(boundExceeded{"reflect.MakeSlice"})
		}
		et := t.Underlying().(*types.Slice).Elem()
		es := make([]Value, cp)
		for i := range es {
			es[i] = in.zero(et)
		}
		in.noteAlloc(cp)
		s := in.mkSlice(et, es)
		s.ln = ln
		return RValue{t: t, val: s, valid: true}
	})
	rf("Copy", func(in *Interp, fr *frame, a []Value, _ *ssa.CallCommon) Value {
		dst, src := a[0].(RValue), a[1].(RValue)
		var ds Slice
		switch dst.t.Underlying().(type) {
		case *types.Array:
			if dst.ptr == nil || !dst.addr {
				in.goPanic("reflect.Copy: unaddressable array")
			}
			arr := walk(dst.ptr.obj.v, dst.ptr.path).(*Array)
			ds = Slice{arr: in.viewObj(dst.ptr, arr), ln: len(arr.E), cp: len(arr.E)}
			if len(dst.ptr.path) == 0 {
				ds.arr = dst.ptr.obj
			}
		default:
			ds = in.rget(dst).(Slice)
		}
		var srcElems []Value
		switch x := in.rget(src).(type) {
		case Slice:
			srcElems = in.sliceElems(x)
		case *Array:
			srcElems = x.E
		case string, *SymStr:
			for _, b := range in.strBytes(x) {
				srcElems = append(srcElems, b)
			}
		}
		n := ds.ln
		if len(srcElems) < n {
			n = len(srcElems)
		}
		tmp := make([]Value, n)
		for i := 0; i < n; i++ {
			tmp[i] = copyVal(srcElems[i])
		}
		for i := 0; i < n; i++ {
			in.store((&Ptr{obj: ds.arr}).sub(ds.off+i), tmp[i])
		}
		return in.mkInt(int64(n))
	})
	rf("Indirect", func(in *Interp, fr *frame, a []Value, _ *ssa.CallCommon) Value {
		v := a[0].(RValue)
		if !v.valid || kindOf(v.t) != reflect.Ptr {
			return v
		}
		p := in.rget(v).(*Ptr)
		if IsNilPtr(p) {
			return RValue{}
		}
		return RValue{t: elemType(v.t), ptr: p, addr: true, valid: true}
	})
	rf("Append", func(in *Interp, fr *frame, a []Value, _ *ssa.CallCommon) Value {
		v := a[0].(RValue)
		s := in.rget(v).(Slice)
		var add []Value
		for _, e := range in.sliceElems(a[1].(Slice)) {
			ev := e.(RValue)
			add = append(add, wrapFor(elemType(v.t), ev.t, in.rget(ev)))
		}
		es := append(append([]Value{}, in.sliceElems(s)...), add...)
		for i := range es {
			es[i] = copyVal(es[i])
		}
		return RValue{t: v.t, val: in.mkSlice(elemType(v.t), es), valid: true}
	})

	rv("Kind", func(in *Interp, v RValue, a []Value) Value {
		if !v.valid {
			return in.rkindTerm(reflect.Invalid)
		}
		return in.rkindTerm(kindOf(v.t))
	})
	rv("IsValid", func(in *Interp, v RValue, a []Value) Value { return in.mkBool(v.valid) })
	rv("Type", func(in *Interp, v RValue, a []Value) Value {
		if !v.valid {
			in.goPanic("reflect: call of reflect.Value.Type on zero Value")
		}
		return mkRTypeIface(v.t)
	})
	rv("CanAddr", func(in *Interp, v RValue, a []Value) Value { return in.mkBool(v.valid && v.addr) })
	rv("CanSet", func(in *Interp, v RValue, a []Value) Value { return in.mkBool(v.valid && v.addr) })
	rv("CanInterface", func(in *Interp, v RValue, a []Value) Value { return in.mkBool(v.valid) })
	rv("Elem", func(in *Interp, v RValue, a []Value) Value {
		switch kindOf(v.t) {
		case reflect.Ptr:
			p := in.rget(v).(*Ptr)
			if IsNilPtr(p) {
				return RValue{}
			}
			return RValue{t: elemType(v.t), ptr: p, addr: true, valid: true}
		case reflect.Interface:
			i := in.rget(v).(Iface)
			return in.rvalueOf(i)
		}
		in.goPanic("reflect: call of reflect.Value.Elem on " + v.t.String())
		return nil
	})
	rv("Addr", func(in *Interp, v RValue, a []Value) Value {
		if !v.valid || !v.addr || v.ptr == nil {
			in.goPanic("reflect.Value.Addr of unaddressable value")
		}
		return RValue{t: types.NewPointer(v.t), val: v.ptr, valid: true}
	})
	rv("Interface", func(in *Interp, v RValue, a []Value) Value {
		x := in.rget(v)
		if _, ok := v.t.Underlying().(*types.Interface); ok {
			return x
		}
		return Iface{t: v.t, v: x}
	})
	rv("IsNil", func(in *Interp, v RValue, a []Value) Value { return in.mkBool(in.rIsNil(v)) })
	rv("IsZero", func(in *Interp, v RValue, a []Value) Value {
		return in.equalOrZero(v)
	})
	rv("Len", func(in *Interp, v RValue, a []Value) Value { return in.mkInt(int64(in.rLen(v))) })
	rv("Cap", func(in *Interp, v RValue, a []Value) Value {
		switch y := in.rget(v).(type) {
		case Slice:
			return in.mkInt(int64(y.cp))
		case *Array:
			return in.mkInt(int64(len(y.E)))
		}
		in.goPanic("reflect: Cap of " + v.t.String())
		return nil
	})
	rv("NumField", func(in *Interp, v RValue, a []Value) Value {
		return in.mkInt(int64(v.t.Underlying().(*types.Struct).NumFields()))
	})
	rv("Field", func(in *Interp, v RValue, a []Value) Value {
		i := in.argInt(a[0])
		st := v.t.Underlying().(*types.Struct)
		if v.ptr != nil {
			return RValue{t: st.Field(i).Type(), ptr: v.ptr.sub(i), addr: v.addr, valid: true}
		}
		return RValue{t: st.Field(i).Type(), val: copyVal(v.val.(*Struct).F[i]), valid: true}
	})
	rv("Index", func(in *Interp, v RValue, a []Value) Value { return in.rIndex(v, in.argInt(a[0])) })
	rv("Set", func(in *Interp, v RValue, a []Value) Value {
		x := a[0].(RValue)
		in.rset(v, wrapFor(v.t, x.t, in.rget(x)))
		return nil
	})
	rv("SetUint", func(in *Interp, v RValue, a []Value) Value {
		w := in.intWidth(basicOf(v.t))
		in.rset(v, in.tt.ZExt(a[0].(*Term), w)) // truncates when narrower
		return nil
	})
	rv("SetInt", func(in *Interp, v RValue, a []Value) Value {
		w := in.intWidth(basicOf(v.t))
		in.rset(v, in.tt.SExt(a[0].(*Term), w))
		return nil
	})
	rv("SetBool", func(in *Interp, v RValue, a []Value) Value { in.rset(v, a[0]); return nil })
	rv("SetString", func(in *Interp, v RValue, a []Value) Value { in.rset(v, a[0]); return nil })
	rv("SetBytes", func(in *Interp, v RValue, a []Value) Value { in.rset(v, a[0]); return nil })
	rv("SetLen", func(in *Interp, v RValue, a []Value) Value {
		s := in.rget(v).(Slice)
		n := in.argInt(a[0])
		if n < 0 || n > s.cp {
			in.goPanic("reflect: slice length out of range in SetLen")
		}
		s.ln = n
		in.rset(v, s)
		return nil
	})
	rv("Uint", func(in *Interp, v RValue, a []Value) Value { return in.tt.ZExt(in.rget(v).(*Term), 64) })
	rv("Int", func(in *Interp, v RValue, a []Value) Value { return in.tt.SExt(in.rget(v).(*Term), 64) })
	rv("Bool", func(in *Interp, v RValue, a []Value) Value { return in.rget(v) })
	rv("Float", func(in *Interp, v RValue, a []Value) Value { return in.rget(v) })
	rv("String", func(in *Interp, v RValue, a []Value) Value {
		if !v.valid {
			return "<invalid Value>"
		}
		if kindOf(v.t) == reflect.String {
			return in.rget(v)
		}
		return "<" + v.t.String() + " Value>"
	})
	rv("Bytes", func(in *Interp, v RValue, a []Value) Value {
		switch kindOf(v.t) {
		case reflect.Slice:
			return in.rget(v)
		case reflect.Array:
			if v.ptr == nil || !v.addr {
				in.goPanic("reflect.Value.Bytes of unaddressable byte array")
			}
			arr := walk(v.ptr.obj.v, v.ptr.path).(*Array)
			if len(v.ptr.path) == 0 {
				return Slice{arr: v.ptr.obj, ln: len(arr.E), cp: len(arr.E)}
			}
			return Slice{arr: in.viewObj(v.ptr, arr), ln: len(arr.E), cp: len(arr.E)}
		}
		in.goPanic("reflect.Value.Bytes of non-byte slice")
		return nil
	})
	rv("Slice", func(in *Interp, v RValue, a []Value) Value {
		i, j := in.argInt(a[0]), in.argInt(a[1])
		switch kindOf(v.t) {
		case reflect.Slice:
			s := in.rget(v).(Slice)
			if i < 0 || j < i || j > s.cp {
				in.goPanic("reflect.Value.Slice: slice index out of bounds")
			}
			return RValue{t: v.t, val: Slice{arr: s.arr, off: s.off + i, ln: j - i, cp: s.cp - i}, valid: true}
		case reflect.Array:
			if v.ptr == nil || !v.addr {
				in.goPanic("reflect.Value.Slice: slice of unaddressable array")
			}
			arr := walk(v.ptr.obj.v, v.ptr.path).(*Array)
			if i < 0 || j < i || j > len(arr.E) {
				in.goPanic("reflect.Value.Slice: slice index out of bounds")
			}
			o := v.ptr.obj
			if len(v.ptr.path) != 0 {
				o = in.viewObj(v.ptr, arr)
			}
			return RValue{t: types.NewSlice(elemType(v.t)), val: Slice{arr: o, off: i, ln: j - i, cp: len(arr.E) - i}, valid: true}
		case reflect.String:
			bs := in.strBytes(in.rget(v))
			if i < 0 || j < i || j > len(bs) {
				in.goPanic("reflect.Value.Slice: string slice index out of bounds")
			}
			return RValue{t: v.t, val: in.mkStr(bs[i:j]), valid: true}
		}
		in.goPanic("reflect.Value.Slice of " + v.t.String())
		return nil
	})
	rv("Pointer", func(in *Interp, v RValue, a []Value) Value {
		switch y := in.rget(v).(type) {
		case *Ptr:
			if IsNilPtr(y) {
				return in.mkU64(0)
			}
			return in.mkU64(uint64(0x10000 + y.obj.id*64))
		case Slice:
			if y.arr == nil {
				return in.mkU64(0)
			}
			return in.mkU64(uint64(0x10000 + y.arr.id*64 + y.off))
		case *MapV:
			if y == nil {
				return in.mkU64(0)
			}
			return in.mkU64(uint64(0x10000 + y.id*64))
		}
		return in.mkU64(0)
	})
	rv("MapKeys", func(in *Interp, v RValue, a []Value) Value {
		m := in.rget(v).(*MapV)
		mt := v.t.Underlying().(*types.Map)
		var es []Value
		if m != nil {
			for _, e := range m.entries {
				if e.live {
					es = append(es, RValue{t: mt.Key(), val: copyVal(e.k), valid: true})
				}
			}
		}
		pkg := in.prog.ImportedPackage("reflect")
		return in.mkSlice(pkg.Type("Value").Type(), es)
	})
	rv("MapIndex", func(in *Interp, v RValue, a []Value) Value {
		m := in.rget(v).(*MapV)
		mt := v.t.Underlying().(*types.Map)
		k := a[0].(RValue)
		i := in.mapFind(m, wrapFor(mt.Key(), k.t, in.rget(k)))
		if i < 0 {
			return RValue{}
		}
		return RValue{t: mt.Elem(), val: copyVal(m.entries[i].v), valid: true}
	})
	rv("NumMethod", func(in *Interp, v RValue, a []Value) Value {
		ms := in.prog.MethodSets.MethodSet(v.t)
		return in.mkInt(int64(ms.Len()))
	})
	rv("Convert", func(in *Interp, v RValue, a []Value) Value {
		t := rtypeOf(a[0])
		return RValue{t: t, val: in.conv(t, v.t, in.rget(v)), valid: true}
	})
	_ = fmt.Sprint
}

func (in *Interp) equalOrZero(v RValue) *Term {
	x := in.rget(v)
	switch y := x.(type) {
	case Slice:
		return in.mkBool(y.arr == nil)
	case *MapV:
		return in.mkBool(y == nil)
	}
	return in.equalTerm(v.t, x, in.zero(v.t))
}
