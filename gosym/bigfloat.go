package main

// math/big.Float as a Real-sorted payload with an interval model of rounding:
// round_{p,mode}(x) is a fresh real r constrained by the documented error bound of the mode
//   ToNearest*:    |r - x| <= |x| * 2^-p
//   ToZero:        |x|(1 - 2^(1-p)) <= |r| <= |x|
//   AwayFromZero:  |x| <= |r| <= |x|(1 + 2^(1-p))
//   ToNegativeInf / ToPositiveInf: the corresponding one-sided bound
// and r = x when x is an integer known to fit p bits. This over-approximates the library
// (every behaviour of the real rounding is included), so `unsat` results are sound; `sat`
// results are replayed natively against the real math/big.

import (
	"fmt"
	"math/big"

	"golang.org/x/tools/go/ssa"
)

func (in *Interp) floatAt(p *Ptr) FloatVal {
	if IsNilPtr(p) {
		in.goPanic("runtime error: invalid memory address or nil pointer dereference (nil *big.Float)")
	}
	return walk(p.obj.v, p.path).(FloatVal)
}

func (in *Interp) fterm(f FloatVal) *Term {
	if f.t == nil {
		return in.tt.Real(new(big.Rat))
	}
	return f.t
}

var bigFloatType = bigIntType

// exactInt reports whether real term x is to_real of an integer term with known bound < 2^prec
func (in *Interp) exactIntBits(x *Term, prec uint) bool {
	u := in.intValuedBound(x)
	return u != nil && uint(u.BitLen()) <= prec
}

// isIntValuedReal: the real term is structurally an integer (sums, differences and products of
// to_real(int) and integer constants)
func isIntValuedReal(x *Term) bool {
	switch x.op {
	case OConst:
		return x.rat.IsInt()
	case OToReal:
		return true
	case OIMul, OIAdd, OISub:
		return x.sort.K == SReal && isIntValuedReal(x.args[0]) && isIntValuedReal(x.args[1])
	}
	return false
}

// intValuedBound: if the real term x is known to be a non-negative integer, an upper bound.
func (in *Interp) intValuedBound(x *Term) *big.Int {
	switch x.op {
	case OConst:
		if x.rat.IsInt() && x.rat.Sign() >= 0 {
			return x.rat.Num()
		}
	case OToReal:
		return in.tt.ubound(x.args[0])
	case OIMul, OIAdd:
		if x.sort.K != SReal {
			return nil
		}
		a, b := in.intValuedBound(x.args[0]), in.intValuedBound(x.args[1])
		if a != nil && b != nil {
			if x.op == OIMul {
				return new(big.Int).Mul(a, b)
			}
			return new(big.Int).Add(a, b)
		}
	}
	return nil
}

func (in *Interp) roundReal(x *Term, prec uint, mode int) *Term {
	tt := in.tt
	if prec == 0 {
		panic(unsupported{"big.Float rounding with precision 0"})
	}
	if in.exactIntBits(x, prec) {
		return x
	}
	if x.op == OConst {
		// concrete: round exactly with the real library
		f := new(big.Float).SetPrec(prec).SetMode(big.RoundingMode(mode))
		f.SetRat(x.rat)
		r, _ := f.Rat(nil)
		return tt.Real(r)
	}
	zero := tt.Real(new(big.Rat))
	if isIntValuedReal(x) {
		// an integer of magnitude at most 2^prec is representable: no rounding
		lim := tt.Real(new(big.Rat).SetInt(pow2(int(prec))))
		if in.branch(tt.And(tt.RCmp(OILe, tt.RBin(OISub, zero, lim), x), tt.RCmp(OILe, x, lim))) {
			return x
		}
	}
	neg := in.branch(tt.RCmp(OILt, x, zero))
	ax := x
	if neg {
		ax = tt.RBin(OISub, zero, x)
	}
	r := tt.Var(in.freshName("$round"), RealSort)
	one := big.NewRat(1, 1)
	eps1 := new(big.Rat).SetFrac(big.NewInt(1), pow2(int(prec)-1)) // 2^(1-p)
	epsH := new(big.Rat).SetFrac(big.NewInt(1), pow2(int(prec)))   // 2^-p
	lo, hi := ax, ax
	m := big.RoundingMode(mode)
	up := m == big.AwayFromZero || (m == big.ToPositiveInf && !neg) || (m == big.ToNegativeInf && neg)
	down := m == big.ToZero || (m == big.ToPositiveInf && neg) || (m == big.ToNegativeInf && !neg)
	switch {
	case up:
		hi = tt.RBin(OIMul, ax, tt.Real(new(big.Rat).Add(one, eps1)))
	case down:
		lo = tt.RBin(OIMul, ax, tt.Real(new(big.Rat).Sub(one, eps1)))
	default: // to nearest
		lo = tt.RBin(OIMul, ax, tt.Real(new(big.Rat).Sub(one, epsH)))
		hi = tt.RBin(OIMul, ax, tt.Real(new(big.Rat).Add(one, epsH)))
	}
	in.assume(tt.RCmp(OILe, lo, r))
	in.assume(tt.RCmp(OILe, r, hi))
	in.P.nondet = true
	in.stubsUsed[fmt.Sprintf("big.Float rounding interval model (prec %d, mode %v)", prec, m)]++
	if neg {
		return tt.RBin(OISub, zero, r)
	}
	return r
}

func init() {
	bf := func(n string, h intrinsic) { reg("(*math/big.Float)."+n, h) }
	setF := func(in *Interp, p *Ptr, f FloatVal) *Ptr {
		in.store(p, f)
		return p
	}
	reg("math/big.ParseFloat", func(in *Interp, fr *frame, a []Value, _ *ssa.CallCommon) Value {
		base := in.argInt(a[1])
		prec := uint(in.argInt(a[2]))
		mode := in.argInt(a[3])
		if base != 10 {
			panic(unsupported{"ParseFloat base != 10"})
		}
		tt := in.tt
		fail := func() Value {
			return Tuple{(*Ptr)(nil), in.mkInt(0), in.newError("strconv.ParseFloat: parsing: invalid syntax")}
		}
		if s, ok := isConcreteStr(a[0]); ok {
			f, b, err := big.ParseFloat(s, base, prec, big.RoundingMode(mode))
			if err != nil {
				return fail()
			}
			if f.IsInf() {
				panic(unsupported{"ParseFloat infinity"})
			}
			r, _ := f.Rat(nil)
			p := &Ptr{obj: in.newObj(nil, FloatVal{t: tt.Real(r), prec: prec, mode: mode}, "bigfloat")}
			return Tuple{p, in.mkInt(int64(b)), Iface{}}
		}
		bs := in.strBytes(a[0])
		neg := false
		if len(bs) > 0 && in.branch(tt.Eq(bs[0], in.mkByte('-'))) {
			neg = true
			bs = bs[1:]
		} else if len(bs) > 0 && in.branch(tt.Eq(bs[0], in.mkByte('+'))) {
			bs = bs[1:]
		}
		if len(bs) == 0 {
			return fail()
		}
		// digits with at most one '.'; anything else (exponents, inf, underscores) is outside the model
		var digs []*Term
		ndig, frac, seenDot := 0, 0, false
		for _, b := range bs {
			if dd, known := in.digitOf(b); known {
				digs = append(digs, dd)
				ndig++
				if seenDot {
					frac++
				}
				continue
			}
			if !seenDot && in.branch(tt.Eq(b, in.mkByte('.'))) {
				seenDot = true
				continue
			}
			isd := tt.And(tt.Cmp(OUle, in.mkByte('0'), b), tt.Cmp(OUle, b, in.mkByte('9')))
			if !in.branch(isd) {
				// 'e', 'E', 'p', 'i' (inf), '_' ... : not modelled
				ex := tt.Or(tt.Or(tt.Eq(b, in.mkByte('e')), tt.Eq(b, in.mkByte('E'))), tt.Or(tt.Eq(b, in.mkByte('p')), tt.Or(tt.Eq(b, in.mkByte('i')), tt.Eq(b, in.mkByte('I')))))
				if in.branch(ex) {
					panic(unsupported{"ParseFloat: exponent / inf syntax is outside the model"})
				}
				return fail()
			}
			d := tt.BV2Nat(tt.BVBin(OSub, b, in.mkByte('0')))
			digs = append(digs, d)
			ndig++
			if seenDot {
				frac++
			}
		}
		if ndig == 0 {
			return fail()
		}
		mant := in.composeDigits(digs)
		// value = round(mant rounded to prec / 5^frac) * 2^-frac  (library: mantissa first, then Quo by pow5)
		m := in.roundReal(tt.ToReal(mant), prec, mode)
		x := m
		if frac > 0 {
			p5 := new(big.Int).Exp(big.NewInt(5), big.NewInt(int64(frac)), nil)
			q := in.roundReal(tt.RBin(ORDiv, m, tt.Real(new(big.Rat).SetInt(p5))), prec, mode)
			x = tt.RBin(OIMul, q, tt.Real(new(big.Rat).SetFrac(big.NewInt(1), pow2(frac))))
		}
		if neg {
			x = tt.RBin(OISub, tt.Real(new(big.Rat)), x)
		}
		p := &Ptr{obj: in.newObj(nil, FloatVal{t: x, prec: prec, mode: mode}, "bigfloat")}
		return Tuple{p, in.mkInt(10), Iface{}}
	})
	bf("SetPrec", func(in *Interp, fr *frame, a []Value, _ *ssa.CallCommon) Value {
		p := a[0].(*Ptr)
		f := in.floatAt(p)
		np := uint(in.argInt(a[1]))
		if f.t != nil && np < f.prec {
			f.t = in.roundReal(f.t, np, f.mode)
		}
		f.prec = np
		return setF(in, p, f)
	})
	bf("SetMode", func(in *Interp, fr *frame, a []Value, _ *ssa.CallCommon) Value {
		p := a[0].(*Ptr)
		f := in.floatAt(p)
		f.mode = in.argInt(a[1])
		return setF(in, p, f)
	})
	bf("SetInt", func(in *Interp, fr *frame, a []Value, _ *ssa.CallCommon) Value {
		p := a[0].(*Ptr)
		f := in.floatAt(p)
		x := in.bigTerm(a[1].(*Ptr))
		if f.prec == 0 {
			// prec = max(bitlen, 64): exact
			f.prec = 64
			if x.IsConst() {
				if b := uint(x.big.BitLen()); b > 64 {
					f.prec = b
				}
			} else if u := in.tt.ubound(x); u != nil && uint(u.BitLen()) > 64 {
				f.prec = uint(u.BitLen())
			} else if u == nil {
				panic(unsupported{"Float.SetInt of unbounded symbolic integer with default precision"})
			}
			f.t = in.tt.ToReal(x)
		} else {
			f.t = in.roundReal(in.tt.ToReal(x), f.prec, f.mode)
		}
		return setF(in, p, f)
	})
	bf("SetInt64", func(in *Interp, fr *frame, a []Value, _ *ssa.CallCommon) Value {
		p := a[0].(*Ptr)
		f := in.floatAt(p)
		if f.prec == 0 {
			f.prec = 64
		}
		f.t = in.roundReal(in.tt.ToReal(in.signedToInt(a[1].(*Term))), f.prec, f.mode)
		return setF(in, p, f)
	})
	bf("SetFloat64", func(in *Interp, fr *frame, a []Value, _ *ssa.CallCommon) Value {
		p := a[0].(*Ptr)
		f := in.floatAt(p)
		if f.prec == 0 {
			f.prec = 53
		}
		if sf, isSym := a[1].(*SymFloat); isSym {
			f.t = sf.t
			if f.prec < 53 {
				f.t = in.roundReal(sf.t, f.prec, f.mode)
			}
			return setF(in, p, f)
		}
		v, ok := a[1].(float64)
		if !ok {
			panic(unsupported{"Float.SetFloat64 of non-float"})
		}
		r := new(big.Rat)
		if r.SetFloat64(v) == nil {
			in.goPanic("big: Float.SetFloat64(NaN)")
		}
		f.t = in.roundReal(in.tt.Real(r), f.prec, f.mode)
		return setF(in, p, f)
	})
	arith := func(op Op) intrinsic {
		return func(in *Interp, fr *frame, a []Value, _ *ssa.CallCommon) Value {
			p := a[0].(*Ptr)
			z := in.floatAt(p)
			x, y := in.floatAt(a[1].(*Ptr)), in.floatAt(a[2].(*Ptr))
			if z.prec == 0 {
				z.prec = x.prec
				if y.prec > z.prec {
					z.prec = y.prec
				}
			}
			if op == ORDiv {
				if in.branch(in.tt.Eq(in.fterm(y), in.tt.Real(new(big.Rat)))) {
					panic(unsupported{"Float.Quo by zero"})
				}
			}
			z.t = in.roundReal(in.tt.RBin(op, in.fterm(x), in.fterm(y)), z.prec, z.mode)
			return setF(in, p, z)
		}
	}
	bf("Mul", arith(OIMul))
	bf("Add", arith(OIAdd))
	bf("Sub", arith(OISub))
	bf("Quo", arith(ORDiv))
	bf("Int", func(in *Interp, fr *frame, a []Value, _ *ssa.CallCommon) Value {
		f := in.floatAt(a[0].(*Ptr))
		tt := in.tt
		x := in.fterm(f)
		zp := a[1].(*Ptr)
		if IsNilPtr(zp) {
			zp = in.newBig(tt.IntI(0))
		}
		var r *Term
		if x.op == OConst {
			q := new(big.Int).Quo(x.rat.Num(), x.rat.Denom()) // truncation toward zero
			r = tt.Int(q)
		} else if in.branch(tt.RCmp(OILt, x, tt.Real(new(big.Rat)))) {
			r = tt.INeg(tt.ToInt(tt.RBin(OISub, tt.Real(new(big.Rat)), x)))
		} else {
			r = tt.ToInt(x)
		}
		in.setBig(zp, r)
		return Tuple{zp, in.mkInt(0)}
	})
	bf("Sign", func(in *Interp, fr *frame, a []Value, _ *ssa.CallCommon) Value {
		x := in.fterm(in.floatAt(a[0].(*Ptr)))
		z := in.tt.Real(new(big.Rat))
		return in.tt.Ite(in.tt.RCmp(OILt, x, z), in.mkInt(-1), in.tt.Ite(in.tt.Eq(x, z), in.mkInt(0), in.mkInt(1)))
	})
	bf("Cmp", func(in *Interp, fr *frame, a []Value, _ *ssa.CallCommon) Value {
		x, y := in.fterm(in.floatAt(a[0].(*Ptr))), in.fterm(in.floatAt(a[1].(*Ptr)))
		return in.tt.Ite(in.tt.RCmp(OILt, x, y), in.mkInt(-1), in.tt.Ite(in.tt.Eq(x, y), in.mkInt(0), in.mkInt(1)))
	})
	bf("Set", func(in *Interp, fr *frame, a []Value, _ *ssa.CallCommon) Value {
		p := a[0].(*Ptr)
		z := in.floatAt(p)
		x := in.floatAt(a[1].(*Ptr))
		if z.prec == 0 {
			z.prec = x.prec
		}
		z.t = x.t
		if x.t != nil && z.prec < x.prec {
			z.t = in.roundReal(x.t, z.prec, z.mode)
		}
		return setF(in, p, z)
	})
	bf("Prec", func(in *Interp, fr *frame, a []Value, _ *ssa.CallCommon) Value {
		return in.mkU64(uint64(in.floatAt(a[0].(*Ptr)).prec))
	})
	reg("math/big.NewFloat", func(in *Interp, fr *frame, a []Value, _ *ssa.CallCommon) Value {
		v, ok := a[0].(float64)
		if !ok {
			panic(unsupported{"big.NewFloat symbolic"})
		}
		r := new(big.Rat)
		r.SetFloat64(v)
		return &Ptr{obj: in.newObj(nil, FloatVal{t: in.tt.Real(r), prec: 53}, "bigfloat")}
	})
}
