package main

// math/bits intrinsics (exact bit-vector semantics, optional integer encoding for the
// multiply/add-with-carry kernels).

import (
	"math/big"

	"golang.org/x/tools/go/ssa"
)

func (in *Interp) lenBits(x *Term) *Term {
	w := x.sort.W
	if x.IsConst() {
		return in.mkInt(int64(x.ConstBig().BitLen()))
	}
	r := in.mkInt(int64(w))
	for i := w - 1; i >= 0; i-- {
		r = in.tt.Ite(in.tt.Cmp(OUlt, x, in.tt.BVBig(w, pow2(i))), in.mkInt(int64(i)), r)
	}
	return r
}

func (in *Interp) tzBits(x *Term) *Term {
	w := x.sort.W
	r := in.mkInt(int64(w))
	for i := w - 1; i >= 0; i-- {
		bit := in.tt.Extract(i, i, x)
		r = in.tt.Ite(in.tt.Eq(bit, in.tt.BV(1, 1)), in.mkInt(int64(i)), r)
	}
	return r
}

func (in *Interp) popBits(x *Term) *Term {
	w := x.sort.W
	r := in.mkInt(0)
	for i := 0; i < w; i++ {
		r = in.tt.BVBin(OAdd, r, in.tt.ZExt(in.tt.Extract(i, i, x), 64))
	}
	return r
}

func (in *Interp) u64ToInt(x *Term) *Term { return in.tt.BV2Nat(x) }

func init() {
	mb := func(n string, h intrinsic) { reg("math/bits."+n, h) }
	addc := func(w int) intrinsic {
		return func(in *Interp, fr *frame, a []Value, _ *ssa.CallCommon) Value {
			x, y, c := a[0].(*Term), a[1].(*Term), a[2].(*Term)
			tt := in.tt
			if in.opts.IntLimbs && w == 64 {
				s := tt.IBin(OIAdd, tt.IBin(OIAdd, in.u64ToInt(x), in.u64ToInt(y)), in.u64ToInt(c))
				m := tt.Int(pow2(64))
				return Tuple{tt.Int2BV(64, tt.IBin(OIMod, s, m)), tt.Int2BV(64, tt.IBin(OIDiv, s, m))}
			}
			sum := tt.BVBin(OAdd, tt.BVBin(OAdd, x, y), c)
			co := tt.BVBin(OLShr, tt.BVBin(OOr, tt.BVBin(OAnd, x, y), tt.BVBin(OAnd, tt.BVBin(OOr, x, y), tt.BVNot(sum))), tt.BV(w, uint64(w-1)))
			return Tuple{sum, co}
		}
	}
	subb := func(w int) intrinsic {
		return func(in *Interp, fr *frame, a []Value, _ *ssa.CallCommon) Value {
			x, y, b := a[0].(*Term), a[1].(*Term), a[2].(*Term)
			tt := in.tt
			if in.opts.IntLimbs && w == 64 {
				d := tt.IBin(OISub, tt.IBin(OISub, in.u64ToInt(x), in.u64ToInt(y)), in.u64ToInt(b))
				m := tt.Int(pow2(64))
				// borrow = 1 if d < 0
				return Tuple{tt.Int2BV(64, tt.IBin(OIMod, d, m)), tt.Int2BV(64, tt.INeg(tt.IBin(OIDiv, d, m)))}
			}
			diff := tt.BVBin(OSub, tt.BVBin(OSub, x, y), b)
			bo := tt.BVBin(OLShr, tt.BVBin(OOr, tt.BVBin(OAnd, tt.BVNot(x), y), tt.BVBin(OAnd, tt.BVNot(tt.BVBin(OXor, x, y)), diff)), tt.BV(w, uint64(w-1)))
			return Tuple{diff, bo}
		}
	}
	mul := func(w int) intrinsic {
		return func(in *Interp, fr *frame, a []Value, _ *ssa.CallCommon) Value {
			x, y := a[0].(*Term), a[1].(*Term)
			tt := in.tt
			if in.opts.IntLimbs && w == 64 {
				p := tt.IBin(OIMul, in.u64ToInt(x), in.u64ToInt(y))
				m := tt.Int(pow2(64))
				return Tuple{tt.Int2BV(64, tt.IBin(OIDiv, p, m)), tt.Int2BV(64, tt.IBin(OIMod, p, m))}
			}
			p := tt.BVBin(OMul, tt.ZExt(x, 2*w), tt.ZExt(y, 2*w))
			return Tuple{tt.Extract(2*w-1, w, p), tt.Extract(w-1, 0, p)}
		}
	}
	div := func(w int) intrinsic {
		return func(in *Interp, fr *frame, a []Value, _ *ssa.CallCommon) Value {
			hi, lo, y := a[0].(*Term), a[1].(*Term), a[2].(*Term)
			tt := in.tt
			if in.branch(in.isZeroT(y)) {
				in.goPanic("runtime error: integer divide by zero")
			}
			if in.branch(tt.Cmp(OUle, y, hi)) {
				in.goPanic("runtime error: integer overflow")
			}
			n := tt.Concat(hi, lo)
			d := tt.ZExt(y, 2*w)
			q := tt.BVBin(OUDiv, n, d)
			r := tt.BVBin(OURem, n, d)
			return Tuple{tt.Extract(w-1, 0, q), tt.Extract(w-1, 0, r)}
		}
	}
	mb("Add64", addc(64))
	mb("Add", addc(64))
	mb("Add32", addc(32))
	mb("Sub64", subb(64))
	mb("Sub", subb(64))
	mb("Sub32", subb(32))
	mb("Mul64", mul(64))
	mb("Mul", mul(64))
	mb("Mul32", mul(32))
	mb("Div64", div(64))
	mb("Div", div(64))
	mb("Div32", div(32))
	for _, s := range []string{"", "64", "32", "16", "8"} {
		mb("Len"+s, func(in *Interp, fr *frame, a []Value, _ *ssa.CallCommon) Value { return in.lenBits(a[0].(*Term)) })
		mb("LeadingZeros"+s, func(in *Interp, fr *frame, a []Value, _ *ssa.CallCommon) Value {
			x := a[0].(*Term)
			return in.tt.BVBin(OSub, in.mkInt(int64(x.sort.W)), in.lenBits(x))
		})
		mb("TrailingZeros"+s, func(in *Interp, fr *frame, a []Value, _ *ssa.CallCommon) Value { return in.tzBits(a[0].(*Term)) })
		mb("OnesCount"+s, func(in *Interp, fr *frame, a []Value, _ *ssa.CallCommon) Value { return in.popBits(a[0].(*Term)) })
		mb("ReverseBytes"+s, func(in *Interp, fr *frame, a []Value, _ *ssa.CallCommon) Value {
			x := a[0].(*Term)
			n := x.sort.W / 8
			r := in.tt.Extract(7, 0, x)
			for i := 1; i < n; i++ {
				r = in.tt.Concat(r, in.tt.Extract(8*i+7, 8*i, x))
			}
			return r
		})
		mb("RotateLeft"+s, func(in *Interp, fr *frame, a []Value, _ *ssa.CallCommon) Value {
			x, k := a[0].(*Term), a[1].(*Term)
			w := x.sort.W
			tt := in.tt
			s := tt.BVBin(OAnd, tt.Extract(w-1, 0, tt.SExt(k, 64+w)), tt.BV(w, uint64(w-1)))
			return tt.BVBin(OOr, tt.BVBin(OShl, x, s), tt.BVBin(OLShr, x, tt.BVBin(OSub, tt.BV(w, uint64(w)), s)))
		})
	}
	_ = big.NewInt
}
