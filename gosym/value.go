package main

// Value representation of the symbolic interpreter.
//
//   *Term            bool and every fixed-width integer (BV / Bool sort; constants folded)
//   float64          floating point (concrete only)
//   complex128       (concrete only)
//   string | *SymStr strings (SymStr: concrete length, symbolic bytes)
//   *Ptr             pointers (nil pointer = (*Ptr)(nil) with typed nil handled by IsNilPtr)
//   *Struct          struct value   (copied on load/store)
//   *Array           array value    (copied on load/store)
//   Slice            slice header (backing array object, offset, len, cap)
//   *MapV            map (reference)
//   Iface            interface value
//   *ssa.Function, *Closure, *ssa.Builtin, *BoundIntrinsic   functions
//   Tuple            multiple results
//   BigVal           payload of a math/big.Int struct (Int-sorted term)
//   RType, RValue    reflect-lite
//   *ChanV           channels (buffered queue only)
//   Poison           result of an unsupported initialiser

import (
	"fmt"
	"go/types"
	"math/big"
	"strings"

	"golang.org/x/tools/go/ssa"
)

type Value interface{}

type Tuple []Value

type Struct struct{ F []Value }
type Array struct{ E []Value }

type Obj struct {
	v     Value
	epoch int
	typ   types.Type
	id    int
	tag   string // debugging: where allocated
}

type Ptr struct {
	obj  *Obj
	path []int
	// symbolic last index (into an Array of scalar terms); nil if concrete
	sym *Term
	n   int // number of elements addressable by sym
	// for function pointers/unsafe: unsupported
}

type Slice struct {
	arr *Obj // nil for nil slice; arr.v is *Array
	off int
	ln  int
	cp  int
}

type SymStr struct{ B []*Term } // each BV8

type Iface struct {
	t types.Type // nil for nil interface
	v Value
}

type Closure struct {
	Fn  *ssa.Function
	Env []Value
}

type BigVal struct{ t *Term } // Int sort; nil t = zero

// FloatVal is the payload of a math/big.Float struct: a Real-sorted term plus precision/mode.
type FloatVal struct {
	t    *Term // nil = 0
	prec uint
	mode int // big.RoundingMode
}

type Poison struct{ why string }

// StubObj is an opaque object behind an interface: every method is a no-op returning zero values.
type StubObj struct{ name string }

var stubObjType = types.NewNamed(types.NewTypeName(0, nil, "gosym.stubObject", nil), types.NewStruct(nil, nil), nil)

func mkStubIface(name string) Value { return Iface{t: stubObjType, v: StubObj{name}} }

type mapEntry struct {
	k, v Value
	live bool
	hk   interface{} // hashable form of k (nil if symbolic)
}

type MapV struct {
	entries []mapEntry
	idx     map[interface{}]int // concrete hashable keys -> entry index
	epoch   int
	kt, vt  types.Type
	n       int
	nsym    int // live entries with non-hashable (symbolic) keys
	id      int
}

type ChanV struct {
	buf []Value
	cap int
}

// ---- helpers

func IsNilPtr(p *Ptr) bool { return p == nil || p.obj == nil }

func (p *Ptr) String() string {
	if IsNilPtr(p) {
		return "nil"
	}
	return fmt.Sprintf("&obj%d%v", p.obj.id, p.path)
}

func ptrEq(a, b *Ptr) bool {
	if IsNilPtr(a) || IsNilPtr(b) {
		return IsNilPtr(a) && IsNilPtr(b)
	}
	if a.obj != b.obj || len(a.path) != len(b.path) || a.sym != b.sym {
		return false
	}
	for i := range a.path {
		if a.path[i] != b.path[i] {
			return false
		}
	}
	return true
}

func isConcreteStr(v Value) (string, bool) {
	switch s := v.(type) {
	case string:
		return s, true
	case *SymStr:
		bs := make([]byte, len(s.B))
		for i, b := range s.B {
			if !b.IsConst() {
				return "", false
			}
			bs[i] = byte(b.cv)
		}
		return string(bs), true
	}
	return "", false
}

func strLen(v Value) int {
	switch s := v.(type) {
	case string:
		return len(s)
	case *SymStr:
		return len(s.B)
	}
	panic(fmt.Sprintf("strLen of %T", v))
}

func (in *Interp) strBytes(v Value) []*Term {
	switch s := v.(type) {
	case string:
		r := make([]*Term, len(s))
		for i := 0; i < len(s); i++ {
			r[i] = in.tt.BV(8, uint64(s[i]))
		}
		return r
	case *SymStr:
		return s.B
	}
	panic(fmt.Sprintf("strBytes of %T", v))
}

func (in *Interp) mkStr(bs []*Term) Value {
	all := true
	for _, b := range bs {
		if !b.IsConst() {
			all = false
			break
		}
	}
	if all {
		r := make([]byte, len(bs))
		for i, b := range bs {
			r[i] = byte(b.cv)
		}
		return string(r)
	}
	return &SymStr{B: append([]*Term(nil), bs...)}
}

// copyVal returns a copy of v with value semantics for aggregates.
func copyVal(v Value) Value {
	switch x := v.(type) {
	case *Struct:
		n := &Struct{F: make([]Value, len(x.F))}
		for i, f := range x.F {
			n.F[i] = copyVal(f)
		}
		return n
	case *Array:
		n := &Array{E: make([]Value, len(x.E))}
		for i, f := range x.E {
			n.E[i] = copyVal(f)
		}
		return n
	case Tuple:
		n := make(Tuple, len(x))
		for i, f := range x {
			n[i] = copyVal(f)
		}
		return n
	}
	return v
}

func isNamed(t types.Type, pkg, name string) bool {
	n, ok := types.Unalias(t).(*types.Named)
	if !ok {
		return false
	}
	o := n.Obj()
	return o.Name() == name && o.Pkg() != nil && o.Pkg().Path() == pkg
}

// zero returns the zero value of type t.
func (in *Interp) zero(t types.Type) Value {
	t = types.Unalias(t)
	if n, ok := t.(*types.Named); ok {
		if o := n.Obj(); o.Pkg() != nil {
			switch o.Pkg().Path() {
			case "math/big":
				if o.Name() == "Int" {
					return BigVal{}
				}
				if o.Name() == "Float" {
					return FloatVal{}
				}
				if o.Name() == "Rat" {
					return RatVal{}
				}
			case bnPkg:
				switch o.Name() {
				case "G1":
					return GVal{grp: '1'}
				case "G2":
					return GVal{grp: '2'}
				case "GT":
					return GVal{grp: 'T'}
				}
			case "reflect":
				if o.Name() == "Value" {
					return RValue{}
				}
			}
		}
	}
	switch u := t.Underlying().(type) {
	case *types.Basic:
		switch {
		case u.Kind() == types.UntypedNil:
			panic("zero of untyped nil")
		case u.Info()&types.IsBoolean != 0:
			return in.tt.False
		case u.Info()&types.IsInteger != 0:
			return in.tt.BV(in.intWidth(u), 0)
		case u.Info()&types.IsFloat != 0:
			return float64(0)
		case u.Info()&types.IsComplex != 0:
			return complex128(0)
		case u.Info()&types.IsString != 0:
			return ""
		case u.Kind() == types.UnsafePointer:
			return (*Ptr)(nil)
		}
	case *types.Pointer:
		return (*Ptr)(nil)
	case *types.Struct:
		s := &Struct{F: make([]Value, u.NumFields())}
		for i := range s.F {
			s.F[i] = in.zero(u.Field(i).Type())
		}
		return s
	case *types.Array:
		a := &Array{E: make([]Value, u.Len())}
		if u.Len() > 0 {
			z := in.zero(u.Elem())
			for i := range a.E {
				if i == 0 {
					a.E[i] = z
				} else {
					a.E[i] = copyVal(z)
				}
			}
		}
		return a
	case *types.Slice:
		return Slice{}
	case *types.Map:
		return (*MapV)(nil)
	case *types.Interface:
		return Iface{}
	case *types.Signature:
		return (*ssa.Function)(nil)
	case *types.Chan:
		return (*ChanV)(nil)
	case *types.Tuple:
		if u.Len() == 1 {
			return in.zero(u.At(0).Type())
		}
		tu := make(Tuple, u.Len())
		for i := range tu {
			tu[i] = in.zero(u.At(i).Type())
		}
		return tu
	}
	panic(fmt.Sprintf("zero: unsupported type %v", t))
}

func (in *Interp) intWidth(b *types.Basic) int {
	switch b.Kind() {
	case types.Int8, types.Uint8:
		return 8
	case types.Int16, types.Uint16:
		return 16
	case types.Int32, types.Uint32:
		return 32
	case types.Int, types.Uint, types.Int64, types.Uint64, types.Uintptr, types.UntypedInt, types.UntypedRune:
		return 64
	}
	panic(fmt.Sprintf("intWidth of %v", b))
}

func isSigned(b *types.Basic) bool {
	return b.Info()&types.IsInteger != 0 && b.Info()&types.IsUnsigned == 0
}

// ---- heap access

func (in *Interp) newObj(t types.Type, v Value, tag string) *Obj {
	in.objCount++
	return &Obj{v: v, epoch: in.epoch, typ: t, id: in.objCount, tag: tag}
}

type journalEntry struct {
	obj  *Obj
	path []int
	old  Value
	m    *MapV
	ment []mapEntry
	midx map[interface{}]int
	mn   int
	msym int
}

func walk(root Value, path []int) Value {
	v := root
	for _, i := range path {
		switch x := v.(type) {
		case *Struct:
			v = x.F[i]
		case *Array:
			v = x.E[i]
		default:
			panic(fmt.Sprintf("walk: cannot index %T", v))
		}
	}
	return v
}

func (in *Interp) load(p *Ptr) Value {
	if IsNilPtr(p) {
		in.goPanic("runtime error: invalid memory address or nil pointer dereference")
	}
	if p.sym != nil {
		arr := walk(p.obj.v, p.path).(*Array)
		return in.selectElem(arr.E[:p.n], p.sym)
	}
	return copyVal(walk(p.obj.v, p.path))
}

// selectElem builds ite chain over scalar elements.
func (in *Interp) selectElem(es []Value, idx *Term) Value {
	r, ok := es[len(es)-1].(*Term)
	if !ok {
		panic(unsupported{"symbolic index into non-scalar array"})
	}
	for i := len(es) - 2; i >= 0; i-- {
		e, ok := es[i].(*Term)
		if !ok {
			panic(unsupported{"symbolic index into non-scalar array"})
		}
		r = in.tt.Ite(in.tt.Eq(idx, in.tt.BV(idx.sort.W, uint64(i))), e, r)
	}
	return r
}

func (in *Interp) store(p *Ptr, v Value) {
	if IsNilPtr(p) {
		in.goPanic("runtime error: invalid memory address or nil pointer dereference")
	}
	v = copyVal(v)
	if p.sym != nil {
		arr := walk(p.obj.v, p.path).(*Array)
		nv, ok := v.(*Term)
		if !ok {
			panic(unsupported{"symbolic-index store of non-scalar"})
		}
		for i := 0; i < p.n; i++ {
			old := arr.E[i].(*Term)
			in.journal(p.obj, append(append([]int(nil), p.path...), i), old)
			arr.E[i] = in.tt.Ite(in.tt.Eq(p.sym, in.tt.BV(p.sym.sort.W, uint64(i))), nv, old)
		}
		return
	}
	if len(p.path) == 0 {
		in.journal(p.obj, nil, p.obj.v)
		if !assignInPlace(p.obj.v, v) {
			p.obj.v = v
		}
		return
	}
	parent := walk(p.obj.v, p.path[:len(p.path)-1])
	i := p.path[len(p.path)-1]
	switch x := parent.(type) {
	case *Struct:
		in.journal(p.obj, p.path, x.F[i])
		if !assignInPlace(x.F[i], v) {
			x.F[i] = v
		}
	case *Array:
		in.journal(p.obj, p.path, x.E[i])
		if !assignInPlace(x.E[i], v) {
			x.E[i] = v
		}
	default:
		panic(fmt.Sprintf("store: cannot index %T", parent))
	}
}

// assignInPlace copies the contents of aggregate src into aggregate dst keeping the identity
// of dst's nested containers (slices of embedded arrays alias them). Returns false if dst is
// not an aggregate of the same shape.
func assignInPlace(dst, src Value) bool {
	switch d := dst.(type) {
	case *Struct:
		s, ok := src.(*Struct)
		if !ok || len(s.F) != len(d.F) {
			return false
		}
		for i := range d.F {
			if !assignInPlace(d.F[i], s.F[i]) {
				d.F[i] = s.F[i]
			}
		}
		return true
	case *Array:
		s, ok := src.(*Array)
		if !ok || len(s.E) != len(d.E) {
			return false
		}
		for i := range d.E {
			if !assignInPlace(d.E[i], s.E[i]) {
				d.E[i] = s.E[i]
			}
		}
		return true
	}
	return false
}

func (in *Interp) journal(o *Obj, path []int, old Value) {
	if o.epoch < in.epoch {
		in.jrn = append(in.jrn, journalEntry{obj: o, path: append([]int(nil), path...), old: copyVal(old)})
	}
}

func (in *Interp) journalMap(m *MapV) {
	if m.epoch < in.epoch {
		idx := make(map[interface{}]int, len(m.idx))
		for k, v := range m.idx {
			idx[k] = v
		}
		in.jrn = append(in.jrn, journalEntry{m: m, ment: append([]mapEntry(nil), m.entries...), midx: idx, mn: m.n, msym: m.nsym})
		m.epoch = in.epoch // snapshot once per path
		in.touchedMaps = append(in.touchedMaps, m)
	}
}

func (in *Interp) rollback() {
	for i := len(in.jrn) - 1; i >= 0; i-- {
		e := in.jrn[i]
		if e.m != nil {
			e.m.entries, e.m.idx, e.m.n, e.m.nsym = e.ment, e.midx, e.mn, e.msym
			continue
		}
		if len(e.path) == 0 {
			if !assignInPlace(e.obj.v, e.old) {
				e.obj.v = e.old
			}
			continue
		}
		parent := walk(e.obj.v, e.path[:len(e.path)-1])
		k := e.path[len(e.path)-1]
		switch x := parent.(type) {
		case *Struct:
			if !assignInPlace(x.F[k], e.old) {
				x.F[k] = e.old
			}
		case *Array:
			if !assignInPlace(x.E[k], e.old) {
				x.E[k] = e.old
			}
		}
	}
	in.jrn = in.jrn[:0]
	for _, m := range in.touchedMaps {
		m.epoch = 0
	}
	in.touchedMaps = in.touchedMaps[:0]
}

func (p *Ptr) sub(i int) *Ptr {
	np := make([]int, len(p.path)+1)
	copy(np, p.path)
	np[len(p.path)] = i
	return &Ptr{obj: p.obj, path: np}
}

// ---- slices

func (in *Interp) sliceElems(s Slice) []Value {
	if s.arr == nil {
		return nil
	}
	return s.arr.v.(*Array).E[s.off : s.off+s.ln]
}

func (in *Interp) mkSlice(elem types.Type, elems []Value) Slice {
	a := &Array{E: elems}
	o := in.newObj(types.NewArray(elem, int64(len(elems))), a, "slice")
	return Slice{arr: o, off: 0, ln: len(elems), cp: len(elems)}
}

func (in *Interp) mkByteSlice(bs []*Term) Slice {
	es := make([]Value, len(bs))
	for i, b := range bs {
		es[i] = b
	}
	return in.mkSlice(types.Typ[types.Uint8], es)
}

func (in *Interp) concreteBytes(bs []byte) Slice {
	es := make([]Value, len(bs))
	for i, b := range bs {
		es[i] = in.tt.BV(8, uint64(b))
	}
	return in.mkSlice(types.Typ[types.Uint8], es)
}

func (in *Interp) sliceTerms(s Slice) []*Term {
	es := in.sliceElems(s)
	r := make([]*Term, len(es))
	for i, e := range es {
		r[i] = e.(*Term)
	}
	return r
}

// bytesIfConcrete returns the bytes of a byte slice if all are constants.
func (in *Interp) bytesIfConcrete(s Slice) ([]byte, bool) {
	es := in.sliceElems(s)
	r := make([]byte, len(es))
	for i, e := range es {
		t := e.(*Term)
		if !t.IsConst() {
			return nil, false
		}
		r[i] = byte(t.cv)
	}
	return r, true
}

// ---- maps

func hashableKey(k Value) (interface{}, bool) {
	switch x := k.(type) {
	case *Term:
		if x.IsConst() {
			return x, true // hash-consed: pointer identity
		}
		return nil, false
	case string:
		return x, true
	case float64:
		return x, true
	case *Ptr:
		if IsNilPtr(x) {
			return "nilptr", true
		}
		if x.sym != nil {
			return nil, false
		}
		return fmt.Sprintf("p%d%v", x.obj.id, x.path), true
	case *Array:
		var sb strings.Builder
		sb.WriteString("A")
		for _, e := range x.E {
			h, ok := hashableKey(e)
			if !ok {
				return nil, false
			}
			fmt.Fprintf(&sb, "%v|", keyStr(h))
		}
		return sb.String(), true
	case *Struct:
		var sb strings.Builder
		sb.WriteString("S")
		for _, e := range x.F {
			h, ok := hashableKey(e)
			if !ok {
				return nil, false
			}
			fmt.Fprintf(&sb, "%v|", keyStr(h))
		}
		return sb.String(), true
	case Iface:
		if x.t == nil {
			return "nilif", true
		}
		h, ok := hashableKey(x.v)
		if !ok {
			return nil, false
		}
		return fmt.Sprintf("I%s:%v", x.t.String(), keyStr(h)), true
	case RType:
		return "rt:" + x.t.String(), true
	case *SymStr:
		if s, ok := isConcreteStr(x); ok {
			return s, true
		}
		return nil, false
	case *MapV:
		return fmt.Sprintf("m%p", x), true
	case *ChanV:
		return fmt.Sprintf("c%p", x), true
	case BigVal:
		return nil, false
	}
	return nil, false
}

func keyStr(h interface{}) string {
	switch x := h.(type) {
	case *Term:
		return fmt.Sprintf("t%d", x.id)
	case string:
		return fmt.Sprintf("%q", x)
	}
	return fmt.Sprint(h)
}

func (in *Interp) newMap(kt, vt types.Type) *MapV {
	in.objCount++
	return &MapV{idx: map[interface{}]int{}, epoch: in.epoch, kt: kt, vt: vt, id: in.objCount}
}

func bigOf(v int64) *big.Int { return big.NewInt(v) }
