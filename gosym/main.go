package main

import (
	"encoding/json"
	"flag"
	"fmt"
	"go/types"
	"os"
	"path/filepath"
	"runtime"
	"runtime/debug"
	"runtime/pprof"
	"sort"
	"strings"
	"time"

	"golang.org/x/tools/go/packages"
	"golang.org/x/tools/go/ssa"
	"golang.org/x/tools/go/ssa/ssautil"
)

const repoDir = "/repo"
const modPath = "com.tuntun.rangers/node"

var verifDir = "/verif"

type Loaded struct {
	prog    *ssa.Program
	pkgs    []*packages.Package
	spkgs   []*ssa.Package
	overlay map[string][]byte
	files   map[string]string // virtual path -> real path
}

// harnessFiles returns virtual->real path mapping for all harness files of the given
// package dirs (relative to /repo), plus symx.
func harnessOverlay(pkgDirs []string, propID string) (map[string]string, error) {
	m := map[string]string{}
	sents, err := os.ReadDir(filepath.Join(verifDir, "symx"))
	if err != nil {
		return nil, err
	}
	for _, e := range sents {
		if strings.HasSuffix(e.Name(), ".go") {
			m[filepath.Join(repoDir, "src/zz_symx", e.Name())] = filepath.Join(verifDir, "symx", e.Name())
		}
	}
	for _, d := range pkgDirs {
		hd := filepath.Join(verifDir, "harness", d)
		ents, err := os.ReadDir(hd)
		if err != nil {
			return nil, err
		}
		for _, e := range ents {
			n := e.Name()
			if !strings.HasSuffix(n, ".go") || !strings.HasPrefix(n, "zz_verif_") {
				continue
			}
			if strings.HasSuffix(n, "_test.go") {
				continue
			}
			// shared helper files: zz_verif_common*.go ; property files: zz_verif_<id>*.go
			low := strings.ToLower(propID)
			if strings.HasPrefix(n, "zz_verif_common") || strings.HasPrefix(n, "zz_verif_"+low) {
				m[filepath.Join(repoDir, d, n)] = filepath.Join(hd, n)
			}
		}
	}
	return m, nil
}

func load(pkgDirs []string, files map[string]string, tags string) (*Loaded, error) {
	overlay := map[string][]byte{}
	for v, r := range files {
		b, err := os.ReadFile(r)
		if err != nil {
			return nil, err
		}
		overlay[v] = b
	}
	cfg := &packages.Config{
		Mode:       packages.LoadAllSyntax,
		Dir:        repoDir,
		Overlay:    overlay,
		BuildFlags: []string{"-tags=" + tags},
		Env:        append(os.Environ(), "GOFLAGS=-mod=mod", "GOPROXY=off", "GOSUMDB=off", "GOTOOLCHAIN=local", "CGO_ENABLED=1"),
	}
	var pats []string
	for _, d := range pkgDirs {
		pats = append(pats, "./"+d)
	}
	pkgs, err := packages.Load(cfg, pats...)
	if err != nil {
		return nil, err
	}
	nerr := 0
	packages.Visit(pkgs, nil, func(p *packages.Package) {
		for _, e := range p.Errors {
			if strings.HasPrefix(p.PkgPath, modPath) {
				fmt.Fprintf(os.Stderr, "load error in %s: %v\n", p.PkgPath, e)
				nerr++
			}
		}
	})
	if nerr > 0 {
		return nil, fmt.Errorf("%d load errors", nerr)
	}
	prog, spkgs := ssautil.AllPackages(pkgs, ssa.InstantiateGenerics|ssa.SanityCheckFunctions&0)
	if bp := prog.ImportedPackage("math/big"); bp != nil {
		bigIntType = bp.Type("Int").Type()
	} else {
		bigIntType = types.NewNamed(types.NewTypeName(0, types.NewPackage("math/big", "big"), "Int", nil), types.NewStruct(nil, nil), nil)
	}
	return &Loaded{prog: prog, pkgs: pkgs, spkgs: spkgs, files: files}, nil
}

func defaultOptions() *Options {
	return &Options{MaxSteps: 5_000_000, MaxDepth: 400, MaxAlloc: 1 << 20, MaxConcretize: 64, SolverKind: "z3", TimeoutMs: 60000,
		Workers: runtime.NumCPU(), Samples: 20, SkipInit: map[string]bool{}, MaxBigBytes: 80, MaxDecDigits: 80, BigBitopWidth: 256, MaxInitSteps: 3_000_000}
}

func heapDumper() {
	path := os.Getenv("GOSYM_HEAP")
	if path == "" {
		return
	}
	go func() {
		for {
			time.Sleep(40 * time.Second)
			f, err := os.Create(path)
			if err == nil {
				pprof.WriteHeapProfile(f)
				f.Close()
			}
		}
	}()
}

// cleanStale removes scratch files of earlier runs that were killed before they could clean up
// (fallback-solver query files, native replay directories); only entries older than three hours,
// so that concurrent runs are left alone.
func cleanStale() {
	for _, pat := range []string{"/var/tmp/gosym-q-*.smt2", "/var/tmp/verif-replay-*"} {
		ms, _ := filepath.Glob(pat)
		for _, m := range ms {
			if fi, err := os.Stat(m); err == nil && time.Since(fi.ModTime()) > 3*time.Hour {
				os.RemoveAll(m)
			}
		}
	}
}

func main() {
	heapDumper()
	cleanStale()
	// long explorations allocate fast on 16 workers: keep the collector ahead of them
	debug.SetGCPercent(50)
	debug.SetMemoryLimit(24 << 30)
	var (
		prop     = flag.String("prop", "", "property id (e.g. C08)")
		tier     = flag.String("tier", "quick", "quick|thorough")
		only     = flag.String("only", "", "run only harness functions whose name contains this")
		verbose  = flag.Int("v", 0, "verbosity")
		trace    = flag.Bool("trace", false, "trace instructions")
		workers  = flag.Int("j", runtime.NumCPU(), "workers")
		solver   = flag.String("solver", "z3", "z3|z3-new|cvc5")
		timeout  = flag.Int("timeout", 0, "solver timeout ms (0 = tier default)")
		slog     = flag.String("solverlog", "", "write worker 0 solver transcript here")
		maxpaths = flag.Int("maxpaths", 0, "path budget per harness")
		noreplay = flag.Bool("noreplay", false, "skip native replay / translator validation")
		replay   = flag.String("replay", "", "replay a recorded counterexample (out/<id>/cex-*.json) natively against /repo's current tree")
		vdir     = flag.String("verif", "/verif", "verif dir")
		fallb    = flag.String("fallback", "z3-new,cvc5", "comma-separated fallback solvers tried one-shot when the primary answers unknown")
	)
	flag.Parse()
	verifDir = *vdir
	if *prop == "" {
		fmt.Fprintln(os.Stderr, "usage: gosym -prop C08 [-tier quick|thorough]")
		os.Exit(2)
	}
	opts := defaultOptions()
	opts.Verbose = *verbose
	opts.Trace = *trace
	opts.Workers = *workers
	opts.SolverKind = *solver
	opts.Thorough = *tier == "thorough"
	opts.SolverLog = *slog
	opts.MaxPaths = *maxpaths
	if v := os.Getenv("VERIF_SEED"); v != "" {
		fmt.Sscanf(v, "%d", &opts.Seed)
	}
	if *fallb != "" {
		for _, f := range strings.Split(*fallb, ",") {
			if f != *solver {
				opts.Fallbacks = append(opts.Fallbacks, f)
			}
		}
	}
	if *timeout > 0 {
		opts.TimeoutMs = *timeout
	} else if opts.Thorough {
		opts.TimeoutMs = 120000
	}
	if *replay != "" {
		os.Exit(replayCase(*prop, *replay, *tier == "thorough"))
	}
	code := runProperty(*prop, *tier, *only, opts, *noreplay)
	os.Exit(code)
}

type harnessFn struct {
	pkgDir string
	fn     *ssa.Function
}

func findHarnesses(ld *Loaded, propID string, thorough bool, only string) []harnessFn {
	var hs []harnessFn
	for _, sp := range ld.spkgs {
		if sp == nil {
			continue
		}
		for name, m := range sp.Members {
			fn, ok := m.(*ssa.Function)
			if !ok {
				continue
			}
			pq := "Verif" + propID + "_"
			pt := "Verif" + propID + "T_"
			if strings.HasPrefix(name, pq) || (thorough && strings.HasPrefix(name, pt)) {
				if only != "" && !strings.Contains(name, only) {
					continue
				}
				dir := strings.TrimPrefix(sp.Pkg.Path(), modPath+"/")
				hs = append(hs, harnessFn{pkgDir: dir, fn: fn})
			}
		}
	}
	sort.Slice(hs, func(i, j int) bool { return hs[i].fn.Name() < hs[j].fn.Name() })
	return hs
}

func runProperty(propID, tier, only string, opts *Options, noreplay bool) int {
	start := time.Now()
	cfg, err := loadCheckConfig(propID)
	if err != nil {
		fmt.Fprintln(os.Stderr, "config:", err)
		return 2
	}
	files, err := harnessOverlay(cfg.PkgDirs, propID)
	if err != nil {
		fmt.Fprintln(os.Stderr, "overlay:", err)
		return 2
	}
	ld, err := load(cfg.PkgDirs, files, cfg.Tags)
	var results []*HarnessResult
	var loadErr string
	if err != nil {
		// harness no longer compiles against the edited tree: inconclusive, not a pass
		loadErr = err.Error()
		fmt.Printf("INCONCLUSIVE property=%s harnesses do not load against the current tree: %v\n", propID, err)
	} else {
		hs := findHarnesses(ld, propID, opts.Thorough, only)
		if len(hs) == 0 {
			fmt.Fprintln(os.Stderr, "no harness functions found for", propID)
			return 2
		}
		// a whole-property time cap for the thorough tier: the per-harness budget is reduced so
		// that every harness still gets a share of what is left
		var propDeadline time.Time
		if opts.Thorough && cfg.BudgetThoroughTotal > 0 {
			propDeadline = start.Add(time.Duration(cfg.BudgetThoroughTotal) * time.Second)
		}
		for hi, h := range hs {
			o := *opts
			o.SkipInit = map[string]bool{}
			for _, p := range cfg.SkipInit {
				o.SkipInit[p] = true
			}
			if cfg.MaxPaths > 0 && o.MaxPaths == 0 {
				o.MaxPaths = cfg.MaxPaths
			}
			if b := cfg.budget(h.fn.Name(), opts.Thorough); b > 0 {
				d := time.Duration(b) * time.Second
				if !propDeadline.IsZero() {
					share := time.Until(propDeadline) / time.Duration(len(hs)-hi) * 2
					if share < 45*time.Second {
						share = 45 * time.Second
					}
					if share < d {
						d = share
					}
				}
				o.Deadline = time.Now().Add(d)
			}
			res := Explore(ld.prog, h.fn, &o)
			res.pkgDir = h.pkgDir
			results = append(results, res)
			printResult(res)
		}
	}
	rep := finish(propID, tier, cfg, ld, results, opts, noreplay, loadErr, time.Since(start))
	return rep
}

func printResult(r *HarnessResult) {
	fmt.Printf("harness %s: paths=%d ok=%d decisions=%d checks proved=%d const=%d violations=%d inconclusive=%d queries=%d solver=%.1fs wall=%.1fs steps=%d\n",
		r.Name, r.Paths, r.PathsOK, r.Decisions, r.ChecksProved, r.ChecksConst, len(r.Violations), len(r.Inconclusive), r.Queries, r.SolverTime.Seconds(), r.Wall.Seconds(), r.Steps)
	if len(r.Reached) > 3 {
		type kv struct {
			k string
			n int
		}
		var kvs []kv
		for k, n := range r.Reached {
			kvs = append(kvs, kv{k, n})
		}
		sort.Slice(kvs, func(i, j int) bool { return kvs[i].n > kvs[j].n })
		fmt.Printf("  reach labels (top):")
		for i, e := range kvs {
			if i >= 14 {
				break
			}
			fmt.Printf(" %s=%d", e.k, e.n)
		}
		fmt.Println()
	}
	for k, n := range r.Inconclusive {
		fmt.Printf("  INCONCLUSIVE %s: %s (x%d)\n", r.Name, k, n)
	}
	for _, v := range r.Violations {
		fmt.Printf("  candidate violation %s: %s (x%d) inputs=%v stack=%s\n", r.Name, v.Label, v.Count, v.Inputs, v.Stack)
	}
}

// replayCase re-runs one recorded counterexample natively (no solver): the harness is compiled
// against /repo's current working tree with the recorded inputs. Exit 1 with a VIOLATION line if
// the recorded check still fails (or the run panics), 0 if it does not reproduce.
func replayCase(propID, path string, thorough bool) int {
	raw, err := os.ReadFile(path)
	if err != nil {
		fmt.Fprintln(os.Stderr, "replay:", err)
		return 2
	}
	var c struct {
		Harness  string            `json:"harness"`
		Inputs   map[string]string `json:"inputs"`
		Label    string            `json:"label"`
		PkgDir   string            `json:"pkg_dir"`
		Property string            `json:"property"`
		Repeat   int               `json:"repeat"`
	}
	if err := json.Unmarshal(raw, &c); err != nil {
		fmt.Fprintln(os.Stderr, "replay:", err)
		return 2
	}
	if propID == "" {
		propID = c.Property
	}
	cfg, err := loadCheckConfig(propID)
	if err != nil {
		fmt.Fprintln(os.Stderr, "config:", err)
		return 2
	}
	files, err := harnessOverlay(cfg.PkgDirs, propID)
	if err != nil {
		fmt.Fprintln(os.Stderr, "overlay:", err)
		return 2
	}
	ld, err := load(cfg.PkgDirs, files, cfg.Tags)
	if err != nil {
		fmt.Printf("INCONCLUSIVE property=%s harnesses do not load against the current tree: %v\n", propID, err)
		return 0
	}
	pkgName := ""
	for _, sp := range ld.spkgs {
		if sp != nil && strings.TrimPrefix(sp.Pkg.Path(), modPath+"/") == c.PkgDir {
			pkgName = sp.Pkg.Name()
		}
	}
	rep := c.Repeat
	if rep == 0 {
		rep = 1
	}
	res, err := nativeRun(propID, c.PkgDir, pkgName, []string{c.Harness}, ld.files, cfg.Tags, []caseJSON{{Harness: c.Harness, Inputs: c.Inputs, Repeat: rep}}, thorough)
	if err != nil || len(res) == 0 {
		fmt.Printf("INCONCLUSIVE property=%s native replay failed: %v\n", propID, err)
		return 0
	}
	fmt.Printf("replay property=%s harness=%s outcome=%s label=%q\n", propID, c.Harness, res[0].Outcome, res[0].Label)
	if res[0].Outcome == "checkfail" || res[0].Outcome == "panic" {
		for _, k := range loadKnown() {
			if k.Status == "known" && k.Property == propID && k.Harness == c.Harness && k.Label == res[0].Label {
				fmt.Printf("KNOWN-FINDING: property=%s %s\n", propID, k.What)
				return 0
			}
		}
		fmt.Printf("VIOLATION property=%s replay=%s\n", propID, path)
		return 1
	}
	return 0
}
