package main

// Symbolic SSA interpreter: frames, instruction dispatch, calls, defers, panics.

import (
	"fmt"
	"go/constant"
	"go/token"
	"go/types"
	"math/big"
	"os"
	"runtime/debug"
	"strings"
	"sync"

	"golang.org/x/tools/go/ssa"
)

type targetPanic struct {
	v     Value
	msg   string
	stack string
}
type unsupported struct{ msg string }
type pathEnd struct{ reason string }
type boundExceeded struct{ what string }

type deferred struct {
	fn   Value
	args []Value
	tail *deferred
	site *ssa.Defer
}

type frame struct {
	in        *Interp
	caller    *frame
	fn        *ssa.Function
	block     *ssa.BasicBlock
	prevBlock *ssa.BasicBlock
	env       map[ssa.Value]Value
	locals    []*Obj
	defers    *deferred
	result    Value
	panicking bool
	panicVal  interface{}
	tolerant  bool
	depth     int
}

type intrinsic func(in *Interp, fr *frame, args []Value, site *ssa.CallCommon) Value

var buildMu sync.Mutex

type Interp struct {
	prog    *ssa.Program
	bnOrd   *big.Int         // bn256 model: group order read from the package
	secpPts map[string]bool  // secp256k1 model: stand-in public key points
	hexTab  map[*Term]hexRec // hex digit characters produced by hex.Encode of symbolic bytes
	tt      *TermTable
	solver  *Solver
	opts    *Options

	epoch       int
	objCount    int
	jrn         []journalEntry
	touchedMaps []*MapV
	globals     map[*ssa.Global]*Obj
	inited      map[*ssa.Package]int // 0 none, 1 running, 2 done
	built       map[*ssa.Package]bool
	constCache  map[*ssa.Const]Value
	initMode    int
	funcIntr    map[*ssa.Function]intrinsic
	funcIntrNeg map[*ssa.Function]bool

	initSteps int

	preimages   map[string][]byte // digests computed natively on concrete input in this worker
	preimageAlg map[string]string

	// per-path state
	P  *PathState
	ex *Explorer

	// stats
	funcsSeen map[*ssa.Function]bool
	goSkipped map[string]int
	stubsUsed map[string]int
}

func NewInterp(prog *ssa.Program, solver *Solver, opts *Options) *Interp {
	in := &Interp{prog: prog, tt: NewTermTable(), solver: solver, opts: opts,
		globals: map[*ssa.Global]*Obj{}, inited: map[*ssa.Package]int{}, built: map[*ssa.Package]bool{},
		constCache: map[*ssa.Const]Value{}, funcIntr: map[*ssa.Function]intrinsic{}, funcIntrNeg: map[*ssa.Function]bool{},
		funcsSeen: map[*ssa.Function]bool{}, goSkipped: map[string]int{}, stubsUsed: map[string]int{}}
	in.epoch = 0
	return in
}

func (in *Interp) goPanic(msg string) {
	panic(targetPanic{v: Iface{t: runtimeErrorType, v: msg}, msg: msg, stack: in.stackString()})
}

var runtimeErrorType = types.NewNamed(types.NewTypeName(token.NoPos, nil, "runtime.Error", nil), types.Typ[types.String], nil)

func (in *Interp) stackString() string {
	if in.P == nil || in.P.curFrame == nil {
		return ""
	}
	var sb strings.Builder
	for fr, n := in.P.curFrame, 0; fr != nil && n < 12; fr, n = fr.caller, n+1 {
		fmt.Fprintf(&sb, "%s; ", fr.fn.String())
	}
	return sb.String()
}

func (in *Interp) ensureBuilt(fn *ssa.Function) {
	pkg := fn.Pkg
	if pkg == nil && fn.Origin() != nil {
		pkg = fn.Origin().Pkg
	}
	if pkg == nil {
		if fn.Parent() != nil {
			pkg = fn.Parent().Pkg
		}
	}
	if pkg != nil && !in.built[pkg] {
		buildMu.Lock()
		pkg.Build()
		buildMu.Unlock()
		in.built[pkg] = true
	}
}

// ---- constants

func (in *Interp) constValue(c *ssa.Const) Value {
	if v, ok := in.constCache[c]; ok {
		return copyVal(v)
	}
	v := in.constValue1(c)
	in.constCache[c] = v
	return copyVal(v)
}

func (in *Interp) constValue1(c *ssa.Const) Value {
	if c.Value == nil {
		return in.zero(c.Type())
	}
	t := c.Type().Underlying()
	if b, ok := t.(*types.Basic); ok {
		switch {
		case b.Info()&types.IsBoolean != 0:
			return in.tt.Bool(constant.BoolVal(c.Value))
		case b.Info()&types.IsInteger != 0:
			w := in.intWidth(b)
			iv := constant.ToInt(c.Value)
			if u, ok := constant.Uint64Val(iv); ok {
				return in.tt.BV(w, u)
			}
			if i, ok := constant.Int64Val(iv); ok {
				return in.tt.BV(w, uint64(i))
			}
			bi, _ := new(big.Int).SetString(iv.ExactString(), 10)
			return in.tt.BVBig(w, bi)
		case b.Info()&types.IsFloat != 0:
			f, _ := constant.Float64Val(constant.ToFloat(c.Value))
			if b.Kind() == types.Float32 {
				return float64(float32(f))
			}
			return f
		case b.Info()&types.IsComplex != 0:
			re, _ := constant.Float64Val(constant.Real(c.Value))
			im, _ := constant.Float64Val(constant.Imag(c.Value))
			return complex(re, im)
		case b.Info()&types.IsString != 0:
			if c.Value.Kind() == constant.String {
				return constant.StringVal(c.Value)
			}
			// rune/int to string constant
			i, _ := constant.Int64Val(c.Value)
			return string(rune(i))
		}
	}
	panic(unsupported{fmt.Sprintf("const of type %v", c.Type())})
}

// ---- globals and package initialisation

func (in *Interp) globalObj(g *ssa.Global) *Obj {
	if o, ok := in.globals[g]; ok {
		return o
	}
	in.initPackage(g.Pkg)
	o, ok := in.globals[g]
	if !ok {
		panic(fmt.Sprintf("global %v not allocated", g))
	}
	return o
}

func (in *Interp) initPackage(pkg *ssa.Package) {
	if in.inited[pkg] != 0 {
		return
	}
	in.inited[pkg] = 1
	if !in.built[pkg] {
		buildMu.Lock()
		pkg.Build()
		buildMu.Unlock()
		in.built[pkg] = true
	}
	saveEpoch := in.epoch
	in.epoch = 0
	in.initMode++
	if in.initMode == 1 {
		in.initSteps = 0
	}
	for _, m := range pkg.Members {
		if g, ok := m.(*ssa.Global); ok {
			et := g.Type().(*types.Pointer).Elem()
			var z Value
			func() {
				defer func() {
					if r := recover(); r != nil {
						z = Poison{fmt.Sprint(r)}
					}
				}()
				z = in.zero(et)
			}()
			in.globals[g] = &Obj{v: z, epoch: 0, typ: et, id: -1, tag: g.String()}
		}
	}
	if in.opts.skipInit(pkg.Pkg.Path()) {
		// leave globals zero
	} else if initFn := pkg.Func("init"); initFn != nil {
		var saveP *frame
		if in.P != nil {
			saveP = in.P.curFrame
		}
		func() {
			defer func() {
				if r := recover(); r != nil {
					if in.opts.Verbose > 0 {
						fmt.Fprintf(os.Stderr, "init of %s aborted: %v\n", pkg.Pkg.Path(), r)
					}
				}
			}()
			in.callSSA(nil, initFn, nil, nil, true)
		}()
		if in.P != nil {
			in.P.curFrame = saveP
		}
	}
	in.initMode--
	in.epoch = saveEpoch
	in.inited[pkg] = 2
}

// ---- value lookup

func (fr *frame) get(v ssa.Value) Value {
	switch v := v.(type) {
	case *ssa.Const:
		return fr.in.constValue(v)
	case *ssa.Global:
		return &Ptr{obj: fr.in.globalObj(v)}
	case *ssa.Function:
		return v
	case *ssa.Builtin:
		return v
	}
	if r, ok := fr.env[v]; ok {
		return r
	}
	panic(fmt.Sprintf("get: no value for %T %v in %v", v, v.Name(), fr.fn))
}

// ---- calls

func (in *Interp) call(fr *frame, fn Value, args []Value, site *ssa.CallCommon) Value {
	switch f := fn.(type) {
	case *ssa.Function:
		if f == nil {
			in.goPanic("runtime error: invalid memory address or nil pointer dereference (nil func)")
		}
		return in.callSSA(fr, f, args, nil, false)
	case *Closure:
		return in.callSSA(fr, f.Fn, args, f.Env, false)
	case *ssa.Builtin:
		return in.callBuiltin(fr, f, args, site)
	case *BoundIntrinsic:
		return f.fn(in, fr, append(append([]Value{}, f.recv...), args...), site)
	}
	panic(fmt.Sprintf("call of non-function %T", fn))
}

type BoundIntrinsic struct {
	name string
	recv []Value
	fn   intrinsic
}

func (in *Interp) lookupIntrinsic(fn *ssa.Function) intrinsic {
	if h, ok := in.funcIntr[fn]; ok {
		return h
	}
	if in.funcIntrNeg[fn] {
		return nil
	}
	name := fn.String()
	if o := fn.Origin(); o != nil {
		name = o.String()
	}
	h := findIntrinsic(in, name, fn)
	if h != nil {
		in.funcIntr[fn] = h
	} else {
		in.funcIntrNeg[fn] = true
	}
	return h
}

// runReal is returned by an intrinsic that declines: the function's own body is interpreted
type runReal struct{}

func (in *Interp) callSSA(caller *frame, fn *ssa.Function, args []Value, env []Value, tolerant bool) Value {
	if h := in.lookupIntrinsic(fn); h != nil {
		r := h(in, caller, args, nil)
		if _, real := r.(runReal); !real {
			in.stubsUsed[fn.String()]++
			return r
		}
	}
	if fn.Synthetic == "package initializer" && !tolerant {
		// a package initializer calling its imports' initializers: packages are initialised
		// lazily on first access to one of their globals instead
		return nil
	}
	in.ensureBuilt(fn)
	if fn.Blocks == nil {
		panic(unsupported{"no body for " + fn.String()})
	}
	if in.initMode == 0 {
		in.funcsSeen[fn] = true
	}
	fr := &frame{in: in, caller: caller, fn: fn, env: make(map[ssa.Value]Value, 16), tolerant: tolerant}
	if caller != nil {
		fr.depth = caller.depth + 1
	}
	if fr.depth > in.opts.MaxDepth {
		panic(boundExceeded{"call depth in " + fn.String()})
	}
	if in.initMode > 0 && fn.Synthetic == "" && strings.HasPrefix(fn.Name(), "init#") {
		fr.tolerant = true
	}
	for i, p := range fn.Params {
		fr.env[p] = args[i]
	}
	for i, fv := range fn.FreeVars {
		fr.env[fv] = env[i]
	}
	for _, l := range fn.Locals {
		t := l.Type().(*types.Pointer).Elem()
		o := in.newObj(t, in.zero(t), "local")
		fr.locals = append(fr.locals, o)
		fr.env[l] = &Ptr{obj: o}
	}
	fr.block = fn.Blocks[0]
	var saved *frame
	if in.P != nil {
		saved = in.P.curFrame
		in.P.curFrame = fr
	}
	for fr.block != nil {
		in.runFrame(fr)
	}
	if in.P != nil {
		in.P.curFrame = saved
	}
	return fr.result
}

// runFrame executes until return or until a panic is fully handled (recovered) in which case
// the function returns via the Recover block.
func (in *Interp) runFrame(fr *frame) {
	defer func() {
		if fr.block == nil {
			return // normal return
		}
		r := recover()
		if r == nil {
			return
		}
		switch r.(type) {
		case targetPanic:
		default:
			panic(r) // interpreter-level abort: propagate, no defers run
		}
		fr.panicking = true
		fr.panicVal = r
		in.P.curFrame = fr
		fr.runDefers()
		// recovered: continue at Recover block
		fr.block = fr.fn.Recover
		if fr.block == nil {
			// function without named results: returns zero values
			fr.result = in.zeroResults(fr.fn)
		}
	}()
	for {
		if in.opts.Trace {
			fmt.Fprintf(os.Stderr, "%s.%d:\n", fr.fn, fr.block.Index)
		}
	block:
		for _, instr := range fr.block.Instrs {
			if in.opts.Trace {
				if v, ok := instr.(ssa.Value); ok {
					fmt.Fprintf(os.Stderr, "\t%s = %s\n", v.Name(), instr)
				} else {
					fmt.Fprintf(os.Stderr, "\t%s\n", instr)
				}
			}
			if in.initMode > 0 {
				in.initSteps++
				if in.initSteps > in.opts.MaxInitSteps {
					panic(boundExceeded{"package init step budget"})
				}
			} else if in.P != nil {
				in.P.steps++
				if in.P.steps > in.opts.MaxSteps {
					panic(boundExceeded{"step budget"})
				}
			}
			var k int
			if fr.tolerant {
				k = in.visitTolerant(fr, instr)
			} else {
				k = in.visit(fr, instr)
			}
			switch k {
			case kReturn:
				return
			case kNext:
			case kJump:
				in.doPhis(fr)
				break block
			}
		}
	}
}

// allocGuard: with an allocation limit set, a symbolic allocation size that can exceed the
// limit is a violation (found by the solver), and the path continues with size <= limit.
func (in *Interp) allocGuard(sz *Term) {
	if in.P == nil || !in.P.allocLimitOn || sz.IsConst() {
		return
	}
	lim := in.tt.BV(sz.sort.W, uint64(in.P.allocLimit+in.opts.AllocSlack))
	over := in.tt.Cmp(OUlt, lim, sz) // unsigned: negative sizes count as huge
	if in.branch(over) {
		// prefer a model with a clearly excessive size so that the native replay can observe it
		var res Result
		var m Model
		rank := 0
		for i, th := range []uint64{1 << 26, 1 << 21, 0} {
			var c *Term
			if th > 0 {
				c = in.tt.Cmp(OUlt, in.tt.BV(sz.sort.W, th), sz)
			}
			res, m = in.solver.Check(in.tt, c, true, in.inputVars())
			if res == Sat {
				rank = 3 - i
				break
			}
		}
		if res == Sat {
			in.recordViolationRanked("allocation beyond limit", "symbolic allocation size can exceed the limit", m, in.stackString(), rank)
		}
		panic(pathEnd{"violation"})
	}
}

func (in *Interp) noteAlloc(n int) {
	if in.P == nil {
		return
	}
	in.P.allocs = append(in.P.allocs, n)
	if in.P.allocLimitOn && n > in.P.allocLimit+in.opts.AllocSlack {
		res, m := in.solver.Check(in.tt, nil, true, in.inputVars())
		if res == Sat {
			in.recordViolation("allocation beyond limit", fmt.Sprintf("allocation of %d elements with limit %d", n, in.P.allocLimit), m, in.stackString())
		}
	}
}

func (in *Interp) zeroResults(fn *ssa.Function) Value {
	res := fn.Signature.Results()
	switch res.Len() {
	case 0:
		return nil
	case 1:
		return in.zero(res.At(0).Type())
	}
	return in.zero(res)
}

func (in *Interp) visitTolerant(fr *frame, instr ssa.Instruction) (k int) {
	defer func() {
		if r := recover(); r != nil {
			if _, ok := r.(boundExceeded); ok {
				panic(r)
			}
			if in.opts.Verbose > 1 {
				fmt.Fprintf(os.Stderr, "init: %s: %v: poisoned: %v\n", fr.fn, instr, r)
			}
			if v, ok := instr.(ssa.Value); ok {
				fr.env[v] = Poison{fmt.Sprint(r)}
			}
			k = kNext
			switch instr.(type) {
			case *ssa.If, *ssa.Jump, *ssa.Return, *ssa.Panic:
				panic(r)
			}
		}
	}()
	return in.visit(fr, instr)
}

const (
	kNext = iota
	kReturn
	kJump
)

func (fr *frame) runDefers() {
	for d := fr.defers; d != nil; d = d.tail {
		fr.defers = d.tail
		fr.runDefer(d)
	}
	fr.defers = nil
	if fr.panicking {
		panic(fr.panicVal)
	}
}

func (fr *frame) runDefer(d *deferred) {
	ok := false
	defer func() {
		if !ok {
			r := recover()
			if _, isT := r.(targetPanic); !isT {
				panic(r)
			}
			fr.panicking = true
			fr.panicVal = r
		}
	}()
	fr.in.call(fr, d.fn, d.args, nil)
	ok = true
}

func (in *Interp) prepareCall(fr *frame, call *ssa.CallCommon) (Value, []Value) {
	v := fr.get(call.Value)
	var fn Value
	var args []Value
	if call.Method == nil {
		fn = v
	} else {
		recv, ok := v.(Iface)
		if !ok {
			panic(fmt.Sprintf("invoke on non-interface %T (%v)", v, call))
		}
		if recv.t == nil {
			in.goPanic("runtime error: invalid memory address or nil pointer dereference (method call on nil interface)")
		}
		if h := reflectMethod(in, recv, call.Method); h != nil {
			fn = h
		} else if so, ok := recv.v.(StubObj); ok {
			sig := call.Method.Type().(*types.Signature)
			fn = &BoundIntrinsic{name: so.name + "." + call.Method.Name(), fn: func(in *Interp, fr *frame, a []Value, _ *ssa.CallCommon) Value {
				in.stubsUsed["stub object "+so.name+"."+call.Method.Name()]++
				if so.name == "conf" && sig.Results().Len() == 1 {
					rt := sig.Results().At(0).Type()
					if _, isItf := rt.Underlying().(*types.Interface); isItf {
						return mkStubIface("conf") // e.g. GetSectionManager
					}
					if n := sig.Params().Len(); n >= 1 && types.Identical(sig.Params().At(n-1).Type(), rt) && len(a) >= n {
						return a[n-1] // Get*(..., default): nothing is configured, the default applies
					}
				}
				switch sig.Results().Len() {
				case 0:
					return nil
				case 1:
					return in.zero(sig.Results().At(0).Type())
				}
				return in.zero(sig.Results())
			}}
		} else {
			f := in.prog.LookupMethod(recv.t, call.Method.Pkg(), call.Method.Name())
			if f == nil {
				panic(fmt.Sprintf("method set for dynamic type %v does not contain %s", recv.t, call.Method))
			}
			fn = f
			args = append(args, recv.v)
		}
	}
	for _, a := range call.Args {
		args = append(args, fr.get(a))
	}
	return fn, args
}

func (in *Interp) visit(fr *frame, instr ssa.Instruction) int {
	switch instr := instr.(type) {
	case *ssa.DebugRef:
	case *ssa.UnOp:
		fr.env[instr] = in.unop(fr, instr, fr.get(instr.X))
	case *ssa.BinOp:
		fr.env[instr] = in.binop(instr.Op, instr.X.Type(), fr.get(instr.X), fr.get(instr.Y), instr.Y.Type())
	case *ssa.Call:
		fn, args := in.prepareCall(fr, &instr.Call)
		fr.env[instr] = in.call(fr, fn, args, &instr.Call)
	case *ssa.ChangeInterface:
		fr.env[instr] = fr.get(instr.X)
	case *ssa.ChangeType:
		fr.env[instr] = fr.get(instr.X)
	case *ssa.Convert:
		fr.env[instr] = in.conv(instr.Type(), instr.X.Type(), fr.get(instr.X))
	case *ssa.SliceToArrayPointer:
		s := fr.get(instr.X).(Slice)
		n := int(instr.Type().Underlying().(*types.Pointer).Elem().Underlying().(*types.Array).Len())
		if s.ln < n {
			in.goPanic("runtime error: cannot convert slice to array pointer: length too short")
		}
		if s.arr == nil {
			fr.env[instr] = (*Ptr)(nil)
		} else if s.off == 0 && len(s.arr.v.(*Array).E) == n {
			fr.env[instr] = &Ptr{obj: s.arr}
		} else {
			panic(unsupported{"SliceToArrayPointer of a sub-slice"})
		}
	case *ssa.MakeInterface:
		fr.env[instr] = Iface{t: instr.X.Type(), v: fr.get(instr.X)}
	case *ssa.Extract:
		fr.env[instr] = fr.get(instr.Tuple).(Tuple)[instr.Index]
	case *ssa.Slice:
		fr.env[instr] = in.sliceOp(fr, instr)
	case *ssa.Return:
		switch len(instr.Results) {
		case 0:
		case 1:
			fr.result = fr.get(instr.Results[0])
		default:
			res := make(Tuple, len(instr.Results))
			for i, r := range instr.Results {
				res[i] = fr.get(r)
			}
			fr.result = res
		}
		fr.block = nil
		return kReturn
	case *ssa.RunDefers:
		fr.runDefers()
	case *ssa.Panic:
		v := fr.get(instr.X)
		panic(targetPanic{v: v, msg: in.panicString(v), stack: in.stackString()})
	case *ssa.Store:
		in.store(fr.get(instr.Addr).(*Ptr), fr.get(instr.Val))
	case *ssa.If:
		c := fr.get(instr.Cond).(*Term)
		succ := 1
		if in.branch(c) {
			succ = 0
		}
		fr.prevBlock, fr.block = fr.block, fr.block.Succs[succ]
		return kJump
	case *ssa.Jump:
		fr.prevBlock, fr.block = fr.block, fr.block.Succs[0]
		return kJump
	case *ssa.Defer:
		fn, args := in.prepareCall(fr, &instr.Call)
		fr.defers = &deferred{fn: fn, args: args, tail: fr.defers, site: instr}
	case *ssa.Go:
		name := "?"
		if f := instr.Call.StaticCallee(); f != nil {
			name = f.String()
		}
		in.goSkipped[name]++
	case *ssa.MakeChan:
		fr.env[instr] = &ChanV{cap: int(in.concreteInt(fr.get(instr.Size), "chan size"))}
	case *ssa.Send:
		ch := fr.get(instr.Chan).(*ChanV)
		if ch == nil {
			panic(unsupported{"send on nil channel"})
		}
		ch.buf = append(ch.buf, fr.get(instr.X))
	case *ssa.Alloc:
		t := instr.Type().(*types.Pointer).Elem()
		if instr.Heap {
			fr.env[instr] = &Ptr{obj: in.newObj(t, in.zero(t), "new")}
		} else {
			p := fr.env[instr].(*Ptr)
			p.obj.v = in.zero(t)
		}
	case *ssa.MakeSlice:
		in.allocGuard(fr.get(instr.Cap).(*Term))
		ln := in.concreteIntChecked(fr.get(instr.Len), "makeslice: len out of range")
		cp := in.concreteIntChecked(fr.get(instr.Cap), "makeslice: cap out of range")
		if ln < 0 || cp < ln {
			in.goPanic("runtime error: makeslice: len out of range")
		}
		in.noteAlloc(int(cp))
		if cp > int64(in.opts.MaxAlloc) {
			panic(boundExceeded{fmt.Sprintf("MakeSlice cap %d", cp)})
		}
		et := instr.Type().Underlying().(*types.Slice).Elem()
		es := make([]Value, cp)
		z := in.zero(et)
		for i := range es {
			es[i] = copyVal(z)
		}
		s := in.mkSlice(et, es)
		s.ln = int(ln)
		fr.env[instr] = s
	case *ssa.MakeMap:
		mt := instr.Type().Underlying().(*types.Map)
		fr.env[instr] = in.newMap(mt.Key(), mt.Elem())
	case *ssa.Range:
		fr.env[instr] = in.rangeIter(fr.get(instr.X), instr.X.Type())
	case *ssa.Next:
		fr.env[instr] = fr.get(instr.Iter).(iterator).next(in)
	case *ssa.FieldAddr:
		p := fr.get(instr.X).(*Ptr)
		if IsNilPtr(p) {
			in.goPanic("runtime error: invalid memory address or nil pointer dereference")
		}
		if p.sym != nil {
			p = in.concretizePtr(p)
		}
		fr.env[instr] = p.sub(instr.Field)
	case *ssa.Field:
		fr.env[instr] = copyVal(fr.get(instr.X).(*Struct).F[instr.Field])
	case *ssa.IndexAddr:
		fr.env[instr] = in.indexAddr(fr, instr)
	case *ssa.Index:
		fr.env[instr] = in.indexOp(fr, instr)
	case *ssa.Lookup:
		fr.env[instr] = in.lookup(fr, instr)
	case *ssa.MapUpdate:
		m := fr.get(instr.Map).(*MapV)
		if m == nil {
			in.goPanic("assignment to entry in nil map")
		}
		in.mapSet(m, fr.get(instr.Key), fr.get(instr.Value))
	case *ssa.TypeAssert:
		fr.env[instr] = in.typeAssert(instr, fr.get(instr.X))
	case *ssa.MakeClosure:
		var b []Value
		for _, x := range instr.Bindings {
			b = append(b, fr.get(x))
		}
		fr.env[instr] = &Closure{Fn: instr.Fn.(*ssa.Function), Env: b}
	case *ssa.Phi:
		// handled at block entry by doPhis
	case *ssa.Select:
		panic(unsupported{"select"})
	default:
		panic(fmt.Sprintf("unexpected instruction %T", instr))
	}
	return kNext
}

// Phis must be evaluated in parallel at block entry; because ssa orders phis first and later
// phis may refer to earlier ones, snapshot before assigning.
func (in *Interp) doPhis(fr *frame) {
	if fr.block == nil {
		return
	}
	var vals []Value
	var phis []*ssa.Phi
	for _, instr := range fr.block.Instrs {
		phi, ok := instr.(*ssa.Phi)
		if !ok {
			break
		}
		for i, pred := range fr.block.Preds {
			if fr.prevBlock == pred {
				vals = append(vals, fr.get(phi.Edges[i]))
				break
			}
		}
		phis = append(phis, phi)
	}
	for i, phi := range phis {
		fr.env[phi] = vals[i]
	}
}

func (in *Interp) panicString(v Value) string {
	if i, ok := v.(Iface); ok {
		if i.t == nil {
			return "panic(nil)"
		}
		if s, ok := isConcreteStr(i.v); ok {
			return s
		}
		// error values: try Error()
		if m := in.prog.LookupMethod(i.t, nil, "Error"); m != nil {
			var s string
			func() {
				defer func() { recover() }()
				r := in.callSSA(in.P.curFrame, m, []Value{i.v}, nil, false)
				s, _ = isConcreteStr(r)
			}()
			if s != "" {
				return s
			}
		}
		return fmt.Sprintf("panic(%v)", i.t)
	}
	return fmt.Sprintf("panic(%T)", v)
}

func (in *Interp) concreteInt(v Value, what string) int64 {
	t := v.(*Term)
	if !t.IsConst() {
		return in.concretize(t, what)
	}
	return sext64(t.cv, t.sort.W)
}

// concreteIntChecked: symbolic sizes are forked over their feasible values (bounded).
func (in *Interp) concreteIntChecked(v Value, what string) int64 {
	return in.concreteInt(v, what)
}

// concretize forks over the feasible values of t (must be few).
func (in *Interp) concretize(t *Term, what string) int64 {
	if t.IsConst() {
		return sext64(t.cv, t.sort.W)
	}
	return in.decideValue(t, what)
}

func init() {
	debug.SetGCPercent(400)
}
