package main

// The pairing groups of consensus/groupsig/bn256 as a symbolic (generic-group) algebra.
//
// The curve and pairing implementation is the subject of C14 (not applicable, DESIGN 6). For
// the properties that sit above it (C13, C15) an element of G1, G2 or GT is a formal linear
// combination  sum_i c_i * B_i  with coefficients in Z_r (Int-sorted terms, compared modulo the
// group order r) over independent basis elements:
//   G1: the generator g1, one basis element H(m) per distinct hashed message m, and one fresh
//       element per on-curve point unmarshalled from bytes the model did not produce;
//   G2: the generator g2 and fresh elements likewise;
//   GT: products e(B1,B2).
// Pair is bilinear; two elements are equal iff all coefficients agree modulo r. This is the
// standard symbolic model of a prime-order pairing group: relations between distinct basis
// elements (discrete logarithms of hash outputs) are unknown to every party.
//
// Elements have value semantics (the struct is replaced by a GVal payload); sharing of the
// internal point between copies of a G1/G2 struct is not modelled.

import (
	"fmt"
	"go/types"
	"math/big"
	"sort"
	"strings"

	"golang.org/x/tools/go/ssa"
)

const bnPkg = "com.tuntun.rangers/node/src/consensus/groupsig/bn256"

// the group order is read from the package under analysis (bn256.Order), once per worker
func (in *Interp) bnInit() {
	if in.bnOrd != nil {
		return
	}
	pkg := in.prog.ImportedPackage(bnPkg)
	if pkg == nil {
		panic(unsupported{"bn256 package not loaded"})
	}
	g, ok := pkg.Members["Order"].(*ssa.Global)
	if !ok {
		panic(unsupported{"bn256.Order not found"})
	}
	p, ok := walk(in.globalObj(g).v, nil).(*Ptr)
	if !ok || IsNilPtr(p) {
		panic(unsupported{"bn256.Order not initialised"})
	}
	t := in.bigTerm(p)
	if t.op != OConst || t.ConstBig().BitLen() < 200 {
		panic(unsupported{"bn256.Order is not a concrete prime-sized constant"})
	}
	in.bnOrd = new(big.Int).Set(t.ConstBig())
}

type gTerm struct {
	base string
	c    *Term // Int sort
}

// GVal is the payload of a bn256.G1 / G2 / GT struct.
type GVal struct {
	grp   byte    // '1' '2' 'T'
	set   bool    // internal point pointer non-nil
	bad   bool    // unmarshalled coordinates that are not on the curve
	raw   []*Term // the coordinate bytes of such a point (Marshal gives them back)
	terms []gTerm
}

func (in *Interp) gAt(p *Ptr, grp byte) GVal {
	if IsNilPtr(p) {
		in.goPanic("runtime error: invalid memory address or nil pointer dereference (nil bn256 element)")
	}
	in.bnInit()
	g := walk(p.obj.v, p.path).(GVal)
	g.grp = grp
	return g
}

func (in *Interp) gNeed(p *Ptr, grp byte) GVal {
	g := in.gAt(p, grp)
	if !g.set {
		in.goPanic("runtime error: invalid memory address or nil pointer dereference (bn256 element without point)")
	}
	if g.bad {
		panic(unsupported{"arithmetic on a bn256 point that is not on the curve"})
	}
	return g
}

func (in *Interp) gNew(g GVal) *Ptr {
	return &Ptr{obj: in.newObj(nil, g, "bn256")}
}

// linear forms over Z_r: coefficients of the group elements are kept as sum_j k_j * atom_j + k_0
// with constants reduced modulo r. Reduction steps of the code under analysis ((x mod r), sums,
// products with constants) are transparent modulo r, so two coefficients that are congruent as
// linear forms compare equal without consulting the solver; anything non-linear is an atom.
type linForm struct {
	k0    *big.Int
	atoms map[*Term]*big.Int
}

func (in *Interp) linOf(t *Term, r *big.Int, memo map[*Term]*linForm) *linForm {
	if l, ok := memo[t]; ok {
		return l
	}
	l := &linForm{k0: new(big.Int), atoms: map[*Term]*big.Int{}}
	add := func(dst, src *linForm, f *big.Int) {
		dst.k0.Add(dst.k0, new(big.Int).Mul(src.k0, f))
		dst.k0.Mod(dst.k0, r)
		for a, k := range src.atoms {
			n := new(big.Int).Mul(k, f)
			if o, ok := dst.atoms[a]; ok {
				n.Add(n, o)
			}
			n.Mod(n, r)
			if n.Sign() == 0 {
				delete(dst.atoms, a)
			} else {
				dst.atoms[a] = n
			}
		}
	}
	one := big.NewInt(1)
	switch {
	case t.op == OConst && t.sort.K == SInt:
		l.k0.Mod(t.ConstBig(), r)
	case t.op == OIAdd && t.sort.K == SInt:
		add(l, in.linOf(t.args[0], r, memo), one)
		add(l, in.linOf(t.args[1], r, memo), one)
	case t.op == OISub && t.sort.K == SInt:
		add(l, in.linOf(t.args[0], r, memo), one)
		add(l, in.linOf(t.args[1], r, memo), big.NewInt(-1))
	case t.op == OINeg && t.sort.K == SInt:
		add(l, in.linOf(t.args[0], r, memo), big.NewInt(-1))
	case t.op == OIMul && t.sort.K == SInt:
		a, b := in.linOf(t.args[0], r, memo), in.linOf(t.args[1], r, memo)
		switch {
		case len(a.atoms) == 0:
			add(l, b, a.k0)
		case len(b.atoms) == 0:
			add(l, a, b.k0)
		default:
			l.atoms[t] = one
		}
	case t.op == OIMod && t.args[1].op == OConst && t.args[1].ConstBig().Cmp(r) == 0:
		add(l, in.linOf(t.args[0], r, memo), one)
	default:
		l.atoms[t] = one
	}
	memo[t] = l
	return l
}

// linTerm rebuilds a canonical Int term from a linear form (atoms ordered by term id)
func (in *Interp) linTerm(l *linForm) *Term {
	as := make([]*Term, 0, len(l.atoms))
	for a := range l.atoms {
		as = append(as, a)
	}
	sort.Slice(as, func(i, j int) bool { return as[i].id < as[j].id })
	var t *Term
	for _, a := range as {
		m := a
		if l.atoms[a].Cmp(big.NewInt(1)) != 0 {
			m = in.tt.IBin(OIMul, in.tt.Int(l.atoms[a]), a)
		}
		if t == nil {
			t = m
		} else {
			t = in.tt.IBin(OIAdd, t, m)
		}
	}
	if t == nil {
		return in.tt.Int(l.k0)
	}
	if l.k0.Sign() != 0 {
		t = in.tt.IBin(OIAdd, t, in.tt.Int(l.k0))
	}
	return t
}

// modNormalize rewrites the argument of (x mod m), m a large constant, into its canonical linear
// form modulo m (inner reductions modulo m disappear, constants are reduced)
func (in *Interp) modNormalize(x *Term, m *big.Int) *Term {
	if x.op == OConst || m.BitLen() <= 64 {
		return x
	}
	return in.linTerm(in.linOf(x, m, map[*Term]*linForm{}))
}

func (in *Interp) gReduce(c *Term) *Term {
	if c.op == OConst {
		return in.tt.Int(new(big.Int).Mod(c.ConstBig(), in.bnOrd))
	}
	return in.linTerm(in.linOf(c, in.bnOrd, map[*Term]*linForm{}))
}

func (in *Interp) gNorm(grp byte, ts []gTerm) GVal {
	m := map[string]*Term{}
	for _, t := range ts {
		if o, ok := m[t.base]; ok {
			m[t.base] = in.gReduce(in.tt.IBin(OIAdd, o, t.c))
		} else {
			m[t.base] = in.gReduce(t.c)
		}
	}
	keys := make([]string, 0, len(m))
	for k, c := range m {
		if c.op == OConst && c.ConstBig().Sign() == 0 {
			continue
		}
		keys = append(keys, k)
	}
	sort.Strings(keys)
	out := make([]gTerm, 0, len(keys))
	for _, k := range keys {
		out = append(out, gTerm{k, m[k]})
	}
	return GVal{grp: grp, set: true, terms: out}
}

func (in *Interp) gScale(g GVal, k *Term) GVal {
	ts := make([]gTerm, len(g.terms))
	for i, t := range g.terms {
		ts[i] = gTerm{t.base, in.tt.IBin(OIMul, t.c, k)}
	}
	return in.gNorm(g.grp, ts)
}

// gEq: equality of two formal combinations modulo r
func (in *Interp) gEq(a, b GVal) *Term {
	tt := in.tt
	m := map[string][2]*Term{}
	zero := tt.IntI(0)
	for _, t := range a.terms {
		m[t.base] = [2]*Term{t.c, zero}
	}
	for _, t := range b.terms {
		e, ok := m[t.base]
		if !ok {
			e = [2]*Term{zero, zero}
		}
		e[1] = t.c
		m[t.base] = e
	}
	keys := make([]string, 0, len(m))
	for k := range m {
		keys = append(keys, k)
	}
	sort.Strings(keys)
	r := tt.True
	ord := tt.Int(in.bnOrd)
	for _, k := range keys {
		e := m[k]
		d := in.gReduce(tt.IBin(OISub, e[0], e[1]))
		var c *Term
		if d.op == OConst {
			c = tt.Bool(d.ConstBig().Sign() == 0)
		} else {
			// not identically zero as a linear form: zero only for particular values
			c = tt.Eq(tt.IBin(OIMod, d, ord), zero)
		}
		r = tt.And(r, c)
	}
	return r
}

// message registry: one basis element per distinct hashed message
func (in *Interp) gHashBase(m []*Term) string {
	for i, o := range in.P.bnMsgs {
		c := in.bytesEqTerm(o, m)
		if c.op == OConst {
			if c == in.tt.True {
				return fmt.Sprintf("H%03d", i)
			}
			continue
		}
		if in.branch(c) {
			return fmt.Sprintf("H%03d", i)
		}
	}
	in.P.bnMsgs = append(in.P.bnMsgs, m)
	return fmt.Sprintf("H%03d", len(in.P.bnMsgs)-1)
}

// ---- serialisation: content-determined bytes of the real length
//   magic 'G' grp 'S' base(4 ascii) coeff(32 bytes) 0...   one basis element
//   magic 'G' grp 'M' id(4)  0...                          several (all coefficients concrete)
//   0...0                                                   the neutral element

func gLen(grp byte) int {
	switch grp {
	case '1':
		return 64
	case '2':
		return 128
	}
	return 384
}

func (in *Interp) gMarshal(g GVal) Slice {
	n := gLen(g.grp)
	bs := make([]*Term, 0, n)
	if len(g.terms) > 0 {
		for i := 0; i < len(wireMagic); i++ {
			bs = append(bs, in.mkByte(wireMagic[i]))
		}
		bs = append(bs, in.mkByte('G'), in.mkByte(g.grp))
		if len(g.terms) == 1 && len(g.terms[0].base) == 4 {
			t := g.terms[0]
			bs = append(bs, in.mkByte('S'))
			for i := 0; i < 4; i++ {
				bs = append(bs, in.mkByte(t.base[i]))
			}
			c := t.c
			if c.op != OConst {
				c = in.tt.IBin(OIMod, c, in.tt.Int(in.bnOrd))
			}
			w := in.tt.Int2BV(256, c)
			for i := 31; i >= 0; i-- {
				bs = append(bs, in.tt.Extract(i*8+7, i*8, w))
			}
		} else {
			var sb strings.Builder
			for _, t := range g.terms {
				if t.c.op != OConst {
					panic(unsupported{"serialising a bn256 element with several symbolic coefficients"})
				}
				fmt.Fprintf(&sb, "%s:%s;", t.base, t.c.ConstBig().String())
			}
			if in.P.bnTok == nil {
				in.P.bnTok = map[string]int{}
			}
			id, ok := in.P.bnTok[sb.String()]
			if !ok {
				id = len(in.P.bnTokV) + 1
				in.P.bnTok[sb.String()] = id
				in.P.bnTokV = append(in.P.bnTokV, g)
			}
			bs = append(bs, in.mkByte('M'), in.mkByte(byte(id>>24)), in.mkByte(byte(id>>16)), in.mkByte(byte(id>>8)), in.mkByte(byte(id)))
		}
	}
	for len(bs) < n {
		bs = append(bs, in.mkByte(0))
	}
	return in.mkByteSlice(bs)
}

// gUnmarshal returns the element and an error flag (true: Unmarshal reports an error)
func (in *Interp) gUnmarshal(grp byte, s Slice) (GVal, bool, bool) {
	n := gLen(grp)
	bs := in.sliceTerms(s)
	if len(bs) < n {
		return GVal{}, true, false // "not enough data": element untouched
	}
	hdr := len(wireMagic)
	isTok := true
	for i := 0; i < hdr && isTok; i++ {
		isTok = bs[i].IsConst() && byte(bs[i].cv) == wireMagic[i]
	}
	if isTok && bs[hdr].IsConst() && byte(bs[hdr].cv) == 'G' && bs[hdr+1].IsConst() && byte(bs[hdr+1].cv) == grp && bs[hdr+2].IsConst() {
		switch byte(bs[hdr+2].cv) {
		case 'S':
			base := make([]byte, 4)
			for i := range base {
				if !bs[hdr+3+i].IsConst() {
					panic(unsupported{"bn256 token with symbolic base"})
				}
				base[i] = byte(bs[hdr+3+i].cv)
			}
			w := bs[hdr+7]
			for i := 1; i < 32; i++ {
				w = in.tt.Concat(w, bs[hdr+7+i])
			}
			return in.gNorm(grp, []gTerm{{string(base), in.tt.BV2Nat(w)}}), false, true
		case 'M':
			id := 0
			for i := 0; i < 4; i++ {
				if !bs[hdr+3+i].IsConst() {
					panic(unsupported{"bn256 token with symbolic id"})
				}
				id = id<<8 | int(bs[hdr+3+i].cv)
			}
			if id >= 1 && id <= len(in.P.bnTokV) {
				g := in.P.bnTokV[id-1]
				g.grp = grp
				return g, false, true
			}
		}
		panic(unsupported{"malformed bn256 token"})
	}
	allConst, allZero := true, true
	for _, b := range bs[:n] {
		if !b.IsConst() {
			allConst = false
			break
		}
		if b.cv != 0 {
			allZero = false
		}
	}
	if allConst && allZero {
		return GVal{grp: grp, set: true}, false, true
	}
	// bytes the model did not produce: the neutral element, an unrelated on-curve point, or
	// coordinates that are not on the curve (Unmarshal reports an error but has set the point)
	in.P.nondet = true
	in.stubsUsed["bn256 Unmarshal of foreign bytes: neutral / unrelated point / malformed"]++
	k := 1
	if !allConst {
		k = in.decideN(3, "bn256 unmarshal")
	}
	switch k {
	case 0:
		in.P.bnFresh++
		return GVal{grp: grp, set: true, terms: []gTerm{{fmt.Sprintf("X%03d", in.P.bnFresh), in.tt.IntI(1)}}}, false, true
	case 1:
		return GVal{grp: grp, set: true, bad: true, raw: append([]*Term{}, bs[:n]...)}, true, true
	}
	zero := in.tt.True
	for _, b := range bs[:n] {
		zero = in.tt.And(zero, in.tt.Eq(b, in.mkByte(0)))
	}
	in.assume(zero)
	return GVal{grp: grp, set: true}, false, true
}

func init() {
	type I = *Interp
	errVal := func(in I, msg string) Value { return in.newError(msg) }
	nilErr := Iface{}
	for _, grp := range []byte{'1', '2', 'T'} {
		grp := grp
		tn := map[byte]string{'1': "G1", '2': "G2", 'T': "GT"}[grp]
		m := func(name string, h intrinsic) { reg("(*"+bnPkg+"."+tn+")."+name, h) }
		m("ScalarBaseMult", func(in I, fr *frame, a []Value, _ *ssa.CallCommon) Value {
			in.gAt(a[0].(*Ptr), grp)
			k := in.bigTerm(a[1].(*Ptr))
			in.store(a[0].(*Ptr), in.gNorm(grp, []gTerm{{"g", k}}))
			return a[0]
		})
		m("ScalarMult", func(in I, fr *frame, a []Value, _ *ssa.CallCommon) Value {
			in.gAt(a[0].(*Ptr), grp)
			x := in.gNeed(a[1].(*Ptr), grp)
			in.store(a[0].(*Ptr), in.gScale(x, in.bigTerm(a[2].(*Ptr))))
			return a[0]
		})
		m("Add", func(in I, fr *frame, a []Value, _ *ssa.CallCommon) Value {
			in.gAt(a[0].(*Ptr), grp)
			x, y := in.gNeed(a[1].(*Ptr), grp), in.gNeed(a[2].(*Ptr), grp)
			in.store(a[0].(*Ptr), in.gNorm(grp, append(append([]gTerm{}, x.terms...), y.terms...)))
			return a[0]
		})
		m("Neg", func(in I, fr *frame, a []Value, _ *ssa.CallCommon) Value {
			in.gAt(a[0].(*Ptr), grp)
			x := in.gNeed(a[1].(*Ptr), grp)
			in.store(a[0].(*Ptr), in.gScale(x, in.tt.IntI(-1)))
			return a[0]
		})
		m("Set", func(in I, fr *frame, a []Value, _ *ssa.CallCommon) Value {
			in.gAt(a[0].(*Ptr), grp)
			x := in.gAt(a[1].(*Ptr), grp)
			if !x.set {
				in.goPanic("runtime error: invalid memory address or nil pointer dereference (bn256 Set from element without point)")
			}
			in.store(a[0].(*Ptr), x)
			return a[0]
		})
		m("Marshal", func(in I, fr *frame, a []Value, _ *ssa.CallCommon) Value {
			x := in.gAt(a[0].(*Ptr), grp)
			if !x.set {
				x = GVal{grp: grp, set: true}
				in.store(a[0].(*Ptr), x)
			}
			if x.bad {
				return in.mkByteSlice(append([]*Term{}, x.raw...))
			}
			return in.gMarshal(x)
		})
		m("Unmarshal", func(in I, fr *frame, a []Value, _ *ssa.CallCommon) Value {
			in.gAt(a[0].(*Ptr), grp)
			s := a[1].(Slice)
			g, isErr, touched := in.gUnmarshal(grp, s)
			if touched {
				in.store(a[0].(*Ptr), g)
			}
			if isErr {
				return Tuple{Slice{}, errVal(in, "bn256: malformed point or not enough data")}
			}
			n := gLen(grp)
			return Tuple{Slice{arr: s.arr, off: s.off + n, ln: s.ln - n, cp: s.cp - n}, nilErr}
		})
		m("String", func(in I, fr *frame, a []Value, _ *ssa.CallCommon) Value { return "bn256." + tn + "(...)" })
	}
	g1 := func(name string, h intrinsic) { reg("(*"+bnPkg+".G1)."+name, h) }
	g1("HashToPoint", func(in I, fr *frame, a []Value, _ *ssa.CallCommon) Value {
		in.gAt(a[0].(*Ptr), '1')
		base := in.gHashBase(in.sliceTerms(a[1].(Slice)))
		in.store(a[0].(*Ptr), GVal{grp: '1', set: true, terms: []gTerm{{base, in.tt.IntI(1)}}})
		in.stubsUsed["bn256 groups as a symbolic prime-order algebra (hash-to-point = independent basis element per message)"]++
		return nilErr
	})
	g1("IsValid", func(in I, fr *frame, a []Value, _ *ssa.CallCommon) Value {
		x := in.gAt(a[0].(*Ptr), '1')
		if !x.set {
			in.goPanic("runtime error: invalid memory address or nil pointer dereference (G1.IsValid without point)")
		}
		return in.mkBool(!x.bad)
	})
	g1("IsNil", func(in I, fr *frame, a []Value, _ *ssa.CallCommon) Value {
		return in.mkBool(!in.gAt(a[0].(*Ptr), '1').set)
	})
	reg("(*"+bnPkg+".G2).IsEmpty", func(in I, fr *frame, a []Value, _ *ssa.CallCommon) Value {
		return in.mkBool(!in.gAt(a[0].(*Ptr), '2').set)
	})
	reg(bnPkg+".GetG2Base", func(in I, fr *frame, a []Value, _ *ssa.CallCommon) Value {
		in.bnInit()
		return in.gNew(GVal{grp: '2', set: true, terms: []gTerm{{"g", in.tt.IntI(1)}}})
	})
	pair := func(in I, fr *frame, a []Value, _ *ssa.CallCommon) Value {
		x, y := in.gNeed(a[0].(*Ptr), '1'), in.gNeed(a[1].(*Ptr), '2')
		var ts []gTerm
		for _, s := range x.terms {
			for _, t := range y.terms {
				ts = append(ts, gTerm{s.base + "|" + t.base, in.tt.IBin(OIMul, s.c, t.c)})
			}
		}
		return in.gNew(in.gNorm('T', ts))
	}
	reg(bnPkg+".Pair", pair)
	reg(bnPkg+".Miller", pair)
	reg("(*"+bnPkg+".GT).Finalize", func(in I, fr *frame, a []Value, _ *ssa.CallCommon) Value { return a[0] })
	reg(bnPkg+".PairIsEuqal", func(in I, fr *frame, a []Value, _ *ssa.CallCommon) Value {
		return in.gEq(in.gNeed(a[0].(*Ptr), 'T'), in.gNeed(a[1].(*Ptr), 'T'))
	})
}

// ShortS of keys, ids and signatures is used for log lines only
func init() {
	gs := "com.tuntun.rangers/node/src/consensus/groupsig."
	for _, n := range []string{"(*" + gs + "Seckey).ShortS", "(" + gs + "ID).ShortS", "(*" + gs + "Pubkey).ShortS", "(" + gs + "Signature).ShortS"} {
		reg(n, func(in *Interp, fr *frame, a []Value, _ *ssa.CallCommon) Value { return "0x…" })
	}
}

// IsEqual of signatures / public keys compares the Marshal bytes; Marshal is injective on group
// elements, so this is element equality (decided on the coefficients, not on their byte encoding)
func init() {
	gs := "com.tuntun.rangers/node/src/consensus/groupsig."
	eq := func(grp byte) intrinsic {
		return func(in *Interp, fr *frame, a []Value, _ *ssa.CallCommon) Value {
			get := func(v Value) GVal {
				in.bnInit()
				g := v.(*Struct).F[0].(GVal)
				g.grp = grp
				if g.bad {
					panic(unsupported{"IsEqual on a bn256 point that is not on the curve"})
				}
				return g // an element without point marshals as the neutral element
			}
			return in.gEq(get(a[0]), get(a[1]))
		}
	}
	reg("("+gs+"Signature).IsEqual", eq('1'))
	reg("("+gs+"Pubkey).IsEqual", eq('2'))
}

// randomness: crypto/rand.Read fills with arbitrary bytes; base.Rand.RandomPerm returns an
// arbitrary k-permutation of 0..n-1 (one path per outcome)
func init() {
	reg("crypto/rand.Read", func(in *Interp, fr *frame, a []Value, _ *ssa.CallCommon) Value {
		s := a[0].(Slice)
		in.P.nondet = true
		in.stubsUsed["crypto/rand.Read: arbitrary bytes"]++
		name := in.freshName("$rand")
		for i := 0; i < s.ln; i++ {
			in.store(&Ptr{obj: s.arr, path: []int{s.off + i}}, in.tt.Var(fmt.Sprintf("%s[%d]", name, i), BVSort(8)))
		}
		return Tuple{in.mkInt(int64(s.ln)), Iface{}}
	})
	reg("(com.tuntun.rangers/node/src/consensus/base.Rand).RandomPerm", func(in *Interp, fr *frame, a []Value, _ *ssa.CallCommon) Value {
		n, k := in.argInt(a[1]), in.argInt(a[2])
		in.P.nondet = true
		in.P.usedMapOrder = true // replay natively several times: the choice is the library's
		in.stubsUsed["base.Rand.RandomPerm: arbitrary k-permutation"]++
		l := make([]int, n)
		for i := range l {
			l[i] = i
		}
		for i := 0; i < k; i++ {
			j := in.decideN(n-i, "RandomPerm") + i
			l[i], l[j] = l[j], l[i]
		}
		vs := make([]Value, k)
		for i := 0; i < k; i++ {
			vs[i] = in.mkInt(int64(l[i]))
		}
		return in.mkSlice(types.Typ[types.Int], vs)
	})
}
