package main

// Library codecs by contract (DESIGN 2.4 / 9.1):
//   gogo/protobuf proto.Marshal / proto.Unmarshal : identity on message structs (required
//     fields must be set; empty repeated fields come back nil), carried by an opaque token;
//   encoding/json Marshal : an injective canonical serialisation of the JSON-visible content
//     (nil-ness of slices/maps/pointers included), carried by a token; Unmarshal of such a
//     token returns an equal value.
// Both are trusted to be faithful; what is checked is the repository's conversion layer.

import (
	"encoding/json"
	"fmt"
	"go/types"
	"sort"
	"strings"

	"golang.org/x/tools/go/ssa"
)

type wireEntry struct {
	kind string // "pb" | "json"
	t    types.Type
	v    Value
}

const wireMagic = "\x00WIRE"

func (in *Interp) wireTable() map[int]*wireEntry {
	if in.P.wire == nil {
		in.P.wire = map[int]*wireEntry{}
	}
	return in.P.wire
}

// deepCopy copies a value together with everything it points to (aliasing preserved via memo).
func (in *Interp) deepCopy(v Value, memo map[*Obj]*Obj) Value {
	switch x := v.(type) {
	case *Ptr:
		if IsNilPtr(x) {
			return x
		}
		if x.sym != nil {
			panic(unsupported{"deepCopy of symbolic-index pointer"})
		}
		return &Ptr{obj: in.deepCopyObj(x.obj, memo), path: append([]int(nil), x.path...)}
	case Slice:
		if x.arr == nil {
			return x
		}
		return Slice{arr: in.deepCopyObj(x.arr, memo), off: x.off, ln: x.ln, cp: x.cp}
	case *Struct:
		n := &Struct{F: make([]Value, len(x.F))}
		for i, f := range x.F {
			n.F[i] = in.deepCopy(f, memo)
		}
		return n
	case *Array:
		n := &Array{E: make([]Value, len(x.E))}
		for i, f := range x.E {
			n.E[i] = in.deepCopy(f, memo)
		}
		return n
	case Tuple:
		n := make(Tuple, len(x))
		for i, f := range x {
			n[i] = in.deepCopy(f, memo)
		}
		return n
	case Iface:
		if x.t == nil {
			return x
		}
		return Iface{t: x.t, v: in.deepCopy(x.v, memo)}
	case *MapV:
		if x == nil {
			return x
		}
		n := in.newMap(x.kt, x.vt)
		for _, e := range x.entries {
			if e.live {
				in.mapSet(n, in.deepCopy(e.k, memo), in.deepCopy(e.v, memo))
			}
		}
		return n
	}
	return v
}

func (in *Interp) deepCopyObj(o *Obj, memo map[*Obj]*Obj) *Obj {
	if n, ok := memo[o]; ok {
		return n
	}
	n := in.newObj(o.typ, nil, o.tag)
	memo[o] = n
	n.v = in.deepCopy(o.v, memo)
	return n
}

func canonKey(ts []*Term) string {
	var sb strings.Builder
	for _, t := range ts {
		fmt.Fprintf(&sb, "%d,", t.id)
	}
	return sb.String()
}

// json tokens carry no identifier (their bytes are hashed by the code under test): magic + the
// canonical serialisation, looked up by content.
func (in *Interp) mkJSONToken(t types.Type, v Value, canon []*Term) Slice {
	if in.P.jsonTab == nil {
		in.P.jsonTab = map[string]*wireEntry{}
	}
	in.P.jsonTab[canonKey(canon)] = &wireEntry{kind: "json", t: t, v: v}
	bs := make([]*Term, 0, len(wireMagic)+1+len(canon))
	for i := 0; i < len(wireMagic); i++ {
		bs = append(bs, in.mkByte(wireMagic[i]))
	}
	bs = append(bs, in.mkByte('J'))
	bs = append(bs, canon...)
	return in.mkByteSlice(bs)
}

func (in *Interp) jsonTokenEntry(s Slice) *wireEntry {
	bs := in.sliceTerms(s)
	if len(bs) < len(wireMagic)+1 || in.P.jsonTab == nil {
		return nil
	}
	for i := 0; i < len(wireMagic); i++ {
		if !bs[i].IsConst() || byte(bs[i].cv) != wireMagic[i] {
			return nil
		}
	}
	return in.P.jsonTab[canonKey(bs[len(wireMagic)+1:])]
}

func (in *Interp) mkToken(kind string, t types.Type, v Value, extra []*Term) Slice {
	tab := in.wireTable()
	id := len(tab) + 1
	tab[id] = &wireEntry{kind: kind, t: t, v: v}
	bs := make([]*Term, 0, 9+len(extra))
	for i := 0; i < len(wireMagic); i++ {
		bs = append(bs, in.mkByte(wireMagic[i]))
	}
	bs = append(bs, in.mkByte(byte(id>>24)), in.mkByte(byte(id>>16)), in.mkByte(byte(id>>8)), in.mkByte(byte(id)))
	bs = append(bs, extra...)
	return in.mkByteSlice(bs)
}

func (in *Interp) tokenEntry(s Slice, kind string) *wireEntry {
	bs := in.sliceTerms(s)
	if len(bs) < len(wireMagic)+4 {
		return nil
	}
	for i := 0; i < len(wireMagic); i++ {
		if !bs[i].IsConst() || byte(bs[i].cv) != wireMagic[i] {
			return nil
		}
	}
	id := 0
	for i := 0; i < 4; i++ {
		b := bs[len(wireMagic)+i]
		if !b.IsConst() {
			return nil
		}
		id = id<<8 | int(b.cv)
	}
	e := in.wireTable()[id]
	if e == nil || e.kind != kind {
		return nil
	}
	return e
}

// ---- protobuf

func pbTagKind(tag string) string {
	// `protobuf:"bytes,3,opt,name=Source"`
	i := strings.Index(tag, `protobuf:"`)
	if i < 0 {
		return ""
	}
	rest := tag[i+10:]
	j := strings.Index(rest, `"`)
	if j >= 0 {
		rest = rest[:j]
	}
	for _, p := range strings.Split(rest, ",") {
		switch p {
		case "req", "opt", "rep":
			return p
		}
	}
	return ""
}

// pbCheckRequired reports a missing required field (recursively).
func (in *Interp) pbCheckRequired(t types.Type, v Value) string {
	st, ok := t.Underlying().(*types.Struct)
	if !ok {
		return ""
	}
	sv := v.(*Struct)
	for i := 0; i < st.NumFields(); i++ {
		f := st.Field(i)
		kind := pbTagKind(st.Tag(i))
		if kind == "" {
			continue
		}
		fv := sv.F[i]
		switch kind {
		case "req":
			switch x := fv.(type) {
			case *Ptr:
				if IsNilPtr(x) {
					return f.Name()
				}
			case Slice:
				if x.arr == nil {
					return f.Name()
				}
			}
		}
		// nested messages
		switch ft := f.Type().Underlying().(type) {
		case *types.Pointer:
			if _, isSt := ft.Elem().Underlying().(*types.Struct); isSt {
				if p := fv.(*Ptr); !IsNilPtr(p) {
					if m := in.pbCheckRequired(ft.Elem(), walk(p.obj.v, p.path)); m != "" {
						return m
					}
				}
			}
		case *types.Slice:
			if pt, ok := ft.Elem().Underlying().(*types.Pointer); ok {
				if _, isSt := pt.Elem().Underlying().(*types.Struct); isSt {
					for _, e := range in.sliceElems(fv.(Slice)) {
						if p := e.(*Ptr); !IsNilPtr(p) {
							if m := in.pbCheckRequired(pt.Elem(), walk(p.obj.v, p.path)); m != "" {
								return m
							}
						} else {
							return f.Name() + "[nil element]"
						}
					}
				}
			}
		}
	}
	return ""
}

// pbNormalise: what a decoder returns for what an encoder wrote: empty repeated fields are
// absent (nil), XXX_ bookkeeping fields are cleared.
func (in *Interp) pbNormalise(t types.Type, v Value) {
	st, ok := t.Underlying().(*types.Struct)
	if !ok {
		return
	}
	sv := v.(*Struct)
	for i := 0; i < st.NumFields(); i++ {
		f := st.Field(i)
		if strings.HasPrefix(f.Name(), "XXX_") {
			sv.F[i] = in.zero(f.Type())
			continue
		}
		kind := pbTagKind(st.Tag(i))
		switch ft := f.Type().Underlying().(type) {
		case *types.Slice:
			s := sv.F[i].(Slice)
			if kind == "rep" && s.ln == 0 {
				sv.F[i] = Slice{}
				continue
			}
			if pt, ok := ft.Elem().Underlying().(*types.Pointer); ok {
				for _, e := range in.sliceElems(s) {
					if p := e.(*Ptr); !IsNilPtr(p) {
						in.pbNormalise(pt.Elem(), walk(p.obj.v, p.path))
					}
				}
			}
		case *types.Pointer:
			if _, isSt := ft.Elem().Underlying().(*types.Struct); isSt {
				if p := sv.F[i].(*Ptr); !IsNilPtr(p) {
					in.pbNormalise(ft.Elem(), walk(p.obj.v, p.path))
				}
			}
		}
	}
}

func init() {
	pbMarshal := func(in *Interp, fr *frame, a []Value, _ *ssa.CallCommon) Value {
		iv := a[0].(Iface)
		if iv.t == nil {
			return Tuple{Slice{}, in.newError("proto: Marshal called with nil")}
		}
		p, ok := iv.v.(*Ptr)
		if !ok || IsNilPtr(p) {
			return Tuple{Slice{}, in.newError("proto: Marshal called with nil")}
		}
		mt := iv.t.(*types.Pointer).Elem()
		msg := walk(p.obj.v, p.path)
		if m := in.pbCheckRequired(mt, msg); m != "" {
			return Tuple{Slice{}, in.newError("proto: required field not set: " + m)}
		}
		cp := in.deepCopy(copyVal(msg), map[*Obj]*Obj{})
		in.pbNormalise(mt, cp)
		in.stubsUsed["protobuf Marshal/Unmarshal: identity on message structs (library trusted)"]++
		return Tuple{in.mkToken("pb", mt, cp, nil), Iface{}}
	}
	pbUnmarshal := func(in *Interp, fr *frame, a []Value, _ *ssa.CallCommon) Value {
		iv := a[1].(Iface)
		p := iv.v.(*Ptr)
		mt := iv.t.(*types.Pointer).Elem()
		e := in.tokenEntry(a[0].(Slice), "pb")
		if e == nil {
			panic(unsupported{"proto.Unmarshal of bytes that were not produced by proto.Marshal in this run (wire decoder is not modelled)"})
		}
		if !types.Identical(e.t, mt) {
			// decoding a message as another type: the real decoder may accept or reject; not modelled
			panic(unsupported{"proto.Unmarshal into a different message type"})
		}
		in.store(p, in.deepCopy(e.v, map[*Obj]*Obj{}))
		return Iface{}
	}
	for _, pkg := range []string{"github.com/gogo/protobuf/proto", "github.com/golang/protobuf/proto"} {
		reg(pkg+".Marshal", pbMarshal)
		reg(pkg+".Unmarshal", pbUnmarshal)
	}

	reg("encoding/json.Marshal", func(in *Interp, fr *frame, a []Value, _ *ssa.CallCommon) Value {
		iv := a[0].(Iface)
		var canon []*Term
		if iv.t == nil {
			canon = []*Term{in.mkByte('n')}
			return Tuple{in.mkJSONToken(nil, Iface{}, canon), Iface{}}
		}
		in.jsonCanon(fr, iv.t, iv.v, &canon, 0)
		cp := in.deepCopy(copyVal(iv.v), map[*Obj]*Obj{})
		in.stubsUsed["encoding/json Marshal/Unmarshal: injective canonical serialisation of the JSON-visible content (library trusted)"]++
		return Tuple{in.mkJSONToken(iv.t, cp, canon), Iface{}}
	})
	reg("encoding/json.Unmarshal", func(in *Interp, fr *frame, a []Value, _ *ssa.CallCommon) Value {
		iv := a[1].(Iface)
		dst, ok := iv.v.(*Ptr)
		if !ok || IsNilPtr(dst) {
			return in.newError("json: Unmarshal(non-pointer)")
		}
		dt := iv.t.(*types.Pointer).Elem()
		data := a[0].(Slice)
		e := in.jsonTokenEntry(data)
		if e == nil {
			if bs, ok := in.bytesIfConcrete(data); ok {
				s := strings.TrimSpace(string(bs))
				if s == "null" {
					return Iface{}
				}
				if s == "" {
					return in.newError("unexpected end of JSON input")
				}
				if !json.Valid(bs) {
					return in.newError("invalid character in JSON input")
				}
				panic(unsupported{"json.Unmarshal of concrete JSON text that was not produced by json.Marshal in this run"})
			}
			// symbolic bytes that are not a token of this run (e.g. raw integers stored next to JSON
			// records): treated as not being JSON
			in.stubsUsed["json.Unmarshal of symbolic non-token bytes: treated as invalid JSON"]++
			return in.newError("invalid character in JSON input")
		}
		if e.t == nil {
			return Iface{} // null
		}
		src := e.v
		st := e.t
		// Marshal(*T) / Marshal(T) both unmarshal into *T
		if pt, ok := st.Underlying().(*types.Pointer); ok && !types.Identical(st, dt) {
			if p := src.(*Ptr); !IsNilPtr(p) {
				src, st = in.load(p), pt.Elem()
			}
		}
		if !types.Identical(st, dt) && !types.Identical(st.Underlying(), dt.Underlying()) {
			// decoding into a different Go type: convert along the JSON object structure
			cv, ok := in.jsonConvert(st, src, dt, dst)
			if !ok {
				panic(unsupported{fmt.Sprintf("json.Unmarshal of %v into %v", st, dt)})
			}
			in.store(dst, cv)
			return Iface{}
		}
		// a JSON null (nil map/slice/pointer) leaves the destination unchanged
		switch x := src.(type) {
		case *MapV:
			if x == nil {
				return Iface{}
			}
		case Slice:
			if x.arr == nil {
				return Iface{}
			}
		case *Ptr:
			if IsNilPtr(x) {
				return Iface{}
			}
		}
		in.store(dst, in.deepCopy(src, map[*Obj]*Obj{}))
		return Iface{}
	})
	reg("time.initLocal", func(in *Interp, fr *frame, a []Value, _ *ssa.CallCommon) Value {
		// the sandbox has no zone database / TZ: Local behaves as UTC (as natively here)
		return nil
	})
}

func u64Bytes(in *Interp, t *Term, signed bool) []*Term {
	var w *Term
	if signed {
		w = in.tt.SExt(t, 64)
	} else {
		w = in.tt.ZExt(t, 64)
	}
	out := make([]*Term, 8)
	for i := 0; i < 8; i++ {
		hi := 63 - 8*i
		out[i] = in.tt.Extract(hi, hi-7, w)
	}
	return out
}

func (in *Interp) jsonLit(out *[]*Term, s string) {
	for i := 0; i < len(s); i++ {
		*out = append(*out, in.mkByte(s[i]))
	}
}

func (in *Interp) jsonLen(out *[]*Term, n int) {
	*out = append(*out, in.mkByte(byte(n>>24)), in.mkByte(byte(n>>16)), in.mkByte(byte(n>>8)), in.mkByte(byte(n)))
}

func jsonFieldName(st *types.Struct, i int) (string, bool, bool) {
	f := st.Field(i)
	if !f.Exported() {
		return "", false, false
	}
	name := f.Name()
	omit := false
	tag := st.Tag(i)
	if k := strings.Index(tag, `json:"`); k >= 0 {
		rest := tag[k+6:]
		if j := strings.Index(rest, `"`); j >= 0 {
			rest = rest[:j]
		}
		parts := strings.Split(rest, ",")
		if parts[0] == "-" && len(parts) == 1 {
			return "", false, false
		}
		if parts[0] != "" {
			name = parts[0]
		}
		for _, p := range parts[1:] {
			if p == "omitempty" {
				omit = true
			}
		}
	}
	return name, true, omit
}

// jsonCanon appends an injective serialisation of the JSON-visible content of v.
func (in *Interp) jsonCanon(fr *frame, t types.Type, v Value, out *[]*Term, depth int) {
	if depth > 12 {
		panic(unsupported{"json: value too deep"})
	}
	if isNamed(t, "time", "Time") {
		// (unix seconds, nanoseconds, zone offset) determine the RFC 3339 text
		m := func(name string) Value {
			f := in.prog.LookupMethod(t, nil, name)
			if f == nil {
				panic(unsupported{"time.Time." + name})
			}
			return in.callSSA(fr, f, []Value{copyVal(v)}, nil, false)
		}
		in.jsonLit(out, "T")
		*out = append(*out, u64Bytes(in, m("Unix").(*Term), true)...)
		*out = append(*out, u64Bytes(in, m("Nanosecond").(*Term), true)...)
		z := m("Zone").(Tuple)
		*out = append(*out, u64Bytes(in, z[1].(*Term), true)...)
		return
	}
	if isNamed(t, "math/big", "Int") {
		x := in.bigTermV(v)
		in.jsonLit(out, "I")
		neg := in.tt.Ite(in.iLt0(x), in.mkByte(1), in.mkByte(0))
		*out = append(*out, neg)
		ax := in.tt.IAbs(x)
		w := in.opts.MaxBigBytes
		if !ax.IsConst() {
			if !in.branch(in.tt.ICmp(OILt, ax, in.tt.Int(pow2(8*w)))) {
				panic(boundExceeded{"json: big.Int wider than MaxBigBytes"})
			}
		} else if ax.big.BitLen() > 8*w {
			panic(boundExceeded{"json: big.Int wider than MaxBigBytes"})
		}
		*out = append(*out, in.bigToBytes(ax, w)...)
		return
	}
	switch u := t.Underlying().(type) {
	case *types.Basic:
		switch x := v.(type) {
		case *Term:
			if x.sort.K == SBool {
				in.jsonLit(out, "b")
				*out = append(*out, in.tt.Ite(x, in.mkByte(1), in.mkByte(0)))
				return
			}
			in.jsonLit(out, "i")
			*out = append(*out, u64Bytes(in, x, isSigned(u))...)
		case string, *SymStr:
			bs := in.strBytes(x)
			in.jsonLit(out, "s")
			in.jsonLen(out, len(bs))
			*out = append(*out, bs...)
		case float64:
			in.jsonLit(out, fmt.Sprintf("f%v;", x))
		default:
			panic(unsupported{fmt.Sprintf("json: basic %T", v)})
		}
	case *types.Pointer:
		p := v.(*Ptr)
		if IsNilPtr(p) {
			in.jsonLit(out, "N")
			return
		}
		in.jsonCanon(fr, u.Elem(), in.load(p), out, depth+1)
	case *types.Struct:
		sv := v.(*Struct)
		in.jsonLit(out, "{")
		for i := 0; i < u.NumFields(); i++ {
			name, ok, omit := jsonFieldName(u, i)
			if !ok {
				continue
			}
			if omit {
				z := in.equalOrZeroVal(u.Field(i).Type(), sv.F[i])
				if z {
					continue
				}
			}
			in.jsonLit(out, name+":")
			in.jsonCanon(fr, u.Field(i).Type(), sv.F[i], out, depth+1)
		}
		in.jsonLit(out, "}")
	case *types.Slice:
		s := v.(Slice)
		if s.arr == nil {
			in.jsonLit(out, "N")
			return
		}
		if b := basicOf(u.Elem()); b != nil && b.Kind() == types.Uint8 {
			in.jsonLit(out, "B")
			in.jsonLen(out, s.ln)
			*out = append(*out, in.sliceTerms(s)...)
			return
		}
		in.jsonLit(out, "[")
		in.jsonLen(out, s.ln)
		for _, e := range in.sliceElems(s) {
			in.jsonCanon(fr, u.Elem(), e, out, depth+1)
		}
	case *types.Array:
		a := v.(*Array)
		in.jsonLit(out, "A")
		for _, e := range a.E {
			in.jsonCanon(fr, u.Elem(), e, out, depth+1)
		}
	case *types.Map:
		m := v.(*MapV)
		if m == nil {
			in.jsonLit(out, "N")
			return
		}
		type kv struct {
			k string
			v Value
		}
		var kvs []kv
		for _, e := range m.entries {
			if !e.live {
				continue
			}
			ks, ok := isConcreteStr(e.k)
			if !ok {
				if kt, isT := e.k.(*Term); isT && kt.IsConst() {
					ks = fmt.Sprint(kt.ConstU64())
				} else {
					panic(unsupported{"json: map with symbolic keys"})
				}
			}
			kvs = append(kvs, kv{ks, e.v})
		}
		sort.Slice(kvs, func(i, j int) bool { return kvs[i].k < kvs[j].k })
		in.jsonLit(out, "M")
		in.jsonLen(out, len(kvs))
		for _, e := range kvs {
			in.jsonLen(out, len(e.k))
			in.jsonLit(out, e.k)
			in.jsonCanon(fr, u.Elem(), e.v, out, depth+1)
		}
	case *types.Interface:
		iv := v.(Iface)
		if iv.t == nil {
			in.jsonLit(out, "N")
			return
		}
		in.jsonCanon(fr, iv.t, iv.v, out, depth+1)
	default:
		panic(unsupported{fmt.Sprintf("json: type %v", t)})
	}
}

func (in *Interp) equalOrZeroVal(t types.Type, v Value) bool {
	switch x := v.(type) {
	case Slice:
		return x.ln == 0
	case *MapV:
		return x == nil || x.n == 0
	case *Ptr:
		return IsNilPtr(x)
	case Iface:
		return x.t == nil
	case string:
		return x == ""
	case *Term:
		if x.IsConst() {
			return x.ConstBig().Sign() == 0
		}
		return in.branch(in.tt.Eq(x, in.zeroLike(x)))
	}
	return false
}

func (in *Interp) zeroLike(x *Term) *Term {
	if x.sort.K == SBool {
		return in.tt.False
	}
	return in.tt.BV(x.sort.W, 0)
}

// jsonConvert converts a value that was marshalled as type st into the Go type dt the way a JSON
// round trip would: objects by (case-insensitive) member name, numbers by value, byte slices and
// strings as such. cur is the current destination (members absent in the JSON keep their value).
func (in *Interp) jsonConvert(st types.Type, v Value, dt types.Type, cur *Ptr) (Value, bool) {
	if iv, ok := v.(Iface); ok {
		if iv.t == nil {
			return in.load(cur), true // null: unchanged
		}
		return in.jsonConvert(iv.t, iv.v, dt, cur)
	}
	if types.Identical(st.Underlying(), dt.Underlying()) {
		return in.deepCopy(v, map[*Obj]*Obj{}), true
	}
	switch du := dt.Underlying().(type) {
	case *types.Struct:
		dv := in.load(cur).(*Struct)
		members := map[string]struct {
			t types.Type
			v Value
		}{}
		switch su := st.Underlying().(type) {
		case *types.Map:
			m := v.(*MapV)
			if m == nil {
				return dv, true
			}
			for _, e := range m.entries {
				if !e.live {
					continue
				}
				k, ok := isConcreteStr(e.k)
				if !ok {
					return nil, false
				}
				members[strings.ToLower(k)] = struct {
					t types.Type
					v Value
				}{su.Elem(), e.v}
			}
		case *types.Struct:
			sv := v.(*Struct)
			for i := 0; i < su.NumFields(); i++ {
				name, ok, _ := jsonFieldName(su, i)
				if ok {
					members[strings.ToLower(name)] = struct {
						t types.Type
						v Value
					}{su.Field(i).Type(), sv.F[i]}
				}
			}
		default:
			return nil, false
		}
		for i := 0; i < du.NumFields(); i++ {
			name, ok, _ := jsonFieldName(du, i)
			if !ok {
				continue
			}
			m, present := members[strings.ToLower(name)]
			if !present {
				continue
			}
			fv, ok := in.jsonConvert(m.t, m.v, du.Field(i).Type(), cur.sub(i))
			if !ok {
				return nil, false
			}
			dv.F[i] = fv
		}
		return dv, true
	case *types.Basic:
		switch x := v.(type) {
		case *Term:
			if du.Info()&types.IsInteger != 0 && x.sort.K == SBV {
				return in.conv(dt, st, x), true
			}
			if du.Info()&types.IsBoolean != 0 && x.sort.K == SBool {
				return x, true
			}
		case string, *SymStr:
			if du.Info()&types.IsString != 0 {
				return x, true
			}
		}
	case *types.Slice:
		if s, ok := v.(Slice); ok {
			if ss, ok2 := st.Underlying().(*types.Slice); ok2 && types.Identical(ss.Elem().Underlying(), du.Elem().Underlying()) {
				return in.deepCopy(s, map[*Obj]*Obj{}), true
			}
		}
	}
	return nil, false
}
