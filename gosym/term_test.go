package main

// Soundness self-test of the term rewriting rules: random expressions are built twice, once with
// the raw node constructor (no rewriting) and once with the simplifying constructors, and z3 is
// asked whether they can differ. Run: go test -run TestRewriteSoundness ./...

import (
	"fmt"
	"math/big"
	"math/rand"
	"testing"
)

type gen struct {
	tt  *TermTable
	r   *rand.Rand
	raw bool
}

func (g *gen) bv(w int, v uint64) *Term { return g.tt.BV(w, v) }

func (g *gen) bin(op Op, a, b *Term) *Term {
	if g.raw {
		return g.tt.bin(op, a.sort, a, b)
	}
	return g.tt.BVBin(op, a, b)
}

// build returns (raw, simplified) versions of a random BV term of width w
func (g *gen) build(w, depth int, vars []*Term) (*Term, *Term) {
	tt := g.tt
	if depth == 0 || g.r.Intn(6) == 0 {
		if g.r.Intn(3) == 0 {
			c := g.bv(w, g.r.Uint64())
			if g.r.Intn(3) == 0 {
				c = g.bv(w, []uint64{0, 1, maskW(w), 0xff, uint64(w), 8}[g.r.Intn(6)])
			}
			return c, c
		}
		// a variable resized to w
		v := vars[g.r.Intn(len(vars))]
		if v.sort.W == w {
			return v, v
		}
		if v.sort.W > w {
			return tt.mk(&Term{op: OExtract, sort: BVSort(w), args: []*Term{v}, p1: w - 1, p2: 0}), tt.Extract(w-1, 0, v)
		}
		return tt.mk(&Term{op: OZExt, sort: BVSort(w), args: []*Term{v}, p1: w - v.sort.W}), tt.ZExt(v, w)
	}
	switch g.r.Intn(12) {
	case 0, 1: // binary op
		ops := []Op{OAdd, OSub, OMul, OAnd, OOr, OXor, OShl, OLShr, OAShr}
		op := ops[g.r.Intn(len(ops))]
		ar, as := g.build(w, depth-1, vars)
		br, bs := g.build(w, depth-1, vars)
		if (op == OShl || op == OLShr || op == OAShr) && g.r.Intn(2) == 0 {
			c := g.bv(w, uint64(g.r.Intn(w+2)))
			br, bs = c, c
		}
		return tt.bin(op, BVSort(w), ar, br), tt.BVBin(op, as, bs)
	case 2: // extract from wider
		w2 := w + 1 + g.r.Intn(16)
		lo := g.r.Intn(w2 - w + 1)
		ar, as := g.build(w2, depth-1, vars)
		return tt.mk(&Term{op: OExtract, sort: BVSort(w), args: []*Term{ar}, p1: lo + w - 1, p2: lo}), tt.Extract(lo+w-1, lo, as)
	case 3: // zext
		if w < 2 {
			break
		}
		w2 := 1 + g.r.Intn(w-1)
		ar, as := g.build(w2, depth-1, vars)
		return tt.mk(&Term{op: OZExt, sort: BVSort(w), args: []*Term{ar}, p1: w - w2}), tt.ZExt(as, w)
	case 4: // sext
		if w < 2 {
			break
		}
		w2 := 1 + g.r.Intn(w-1)
		ar, as := g.build(w2, depth-1, vars)
		return tt.mk(&Term{op: OSExt, sort: BVSort(w), args: []*Term{ar}, p1: w - w2}), tt.SExt(as, w)
	case 5: // concat
		if w < 2 {
			break
		}
		w2 := 1 + g.r.Intn(w-1)
		ar, as := g.build(w2, depth-1, vars)
		br, bs := g.build(w-w2, depth-1, vars)
		return tt.bin(OConcat, BVSort(w), ar, br), tt.Concat(as, bs)
	case 6: // not / neg
		ar, as := g.build(w, depth-1, vars)
		if g.r.Intn(2) == 0 {
			return tt.un(ONot, BVSort(w), ar), tt.BVNot(as)
		}
		return tt.un(ONeg, BVSort(w), ar), tt.BVNeg(as)
	case 7: // ite on a comparison
		cr, cs := g.buildBool(depth-1, vars)
		ar, as := g.build(w, depth-1, vars)
		br, bs := g.build(w, depth-1, vars)
		return tt.mk(&Term{op: OIte, sort: BVSort(w), args: []*Term{cr, ar, br}}), tt.Ite(cs, as, bs)
	case 8: // int2bv(bv2nat(x) op const)
		w2 := 1 + g.r.Intn(20)
		ar, as := g.build(w2, depth-1, vars)
		k := big.NewInt(int64(g.r.Intn(300)))
		ir := tt.bin(OIAdd, IntSort, tt.un(OBV2Nat, IntSort, ar), tt.Int(k))
		is := tt.IBin(OIAdd, tt.BV2Nat(as), tt.Int(k))
		if g.r.Intn(2) == 0 {
			m := tt.Int(big.NewInt(int64(1 + g.r.Intn(1000))))
			ir = tt.bin(OIMod, IntSort, ir, m)
			is = tt.IBin(OIMod, is, m)
		}
		return tt.mk(&Term{op: OInt2BV, sort: BVSort(w), args: []*Term{ir}, p1: w}), tt.Int2BV(w, is)
	case 9: // byte assembly: (zext(a) << 8) | zext(b)
		if w < 16 {
			break
		}
		ar, as := g.build(8, depth-1, vars)
		br, bs := g.build(8, depth-1, vars)
		sh := g.bv(w, 8)
		raw := tt.bin(OOr, BVSort(w), tt.bin(OShl, BVSort(w), tt.mk(&Term{op: OZExt, sort: BVSort(w), args: []*Term{ar}, p1: w - 8}), sh), tt.mk(&Term{op: OZExt, sort: BVSort(w), args: []*Term{br}, p1: w - 8}))
		simp := tt.BVBin(OOr, tt.BVBin(OShl, tt.ZExt(as, w), sh), tt.ZExt(bs, w))
		return raw, simp
	}
	ar, as := g.build(w, depth-1, vars)
	return ar, as
}

func (g *gen) buildBool(depth int, vars []*Term) (*Term, *Term) {
	tt := g.tt
	w := []int{8, 16, 24, 64}[g.r.Intn(4)]
	ar, as := g.build(w, depth, vars)
	br, bs := g.build(w, depth, vars)
	switch g.r.Intn(7) {
	case 0:
		return tt.bin(OEq, BoolSort, ar, br), tt.Eq(as, bs)
	case 1:
		return tt.bin(OUlt, BoolSort, ar, br), tt.Cmp(OUlt, as, bs)
	case 2:
		return tt.bin(OUle, BoolSort, ar, br), tt.Cmp(OUle, as, bs)
	case 3:
		return tt.bin(OSlt, BoolSort, ar, br), tt.Cmp(OSlt, as, bs)
	case 4:
		return tt.bin(OSle, BoolSort, ar, br), tt.Cmp(OSle, as, bs)
	case 5: // integer comparison of bv2nat with a constant
		k := tt.Int(big.NewInt(int64(g.r.Intn(1 << 20))))
		return tt.bin(OILt, BoolSort, tt.un(OBV2Nat, IntSort, ar), k), tt.ICmp(OILt, tt.BV2Nat(as), k)
	default: // equality of bv2nat terms
		return tt.bin(OEq, BoolSort, tt.un(OBV2Nat, IntSort, ar), tt.un(OBV2Nat, IntSort, br)), tt.Eq(tt.BV2Nat(as), tt.BV2Nat(bs))
	}
}

func TestRewriteSoundness(t *testing.T) {
	s, err := NewSolver("z3", 5000, nil)
	if err != nil {
		t.Skip("z3 not available")
	}
	defer s.Close()
	n := 1500
	bad := 0
	unknown := 0
	for i := 0; i < n; i++ {
		tt := NewTermTable()
		r := rand.New(rand.NewSource(int64(i)))
		g := &gen{tt: tt, r: r}
		vars := []*Term{tt.Var("a", BVSort(8)), tt.Var("b", BVSort(8)), tt.Var("c", BVSort(16)), tt.Var("d", BVSort(32)), tt.Var("e", BVSort(64))}
		var q *Term
		var desc string
		if r.Intn(3) == 0 {
			cr, cs := g.buildBool(3, vars)
			q = tt.bin(OBNot, BoolSort, tt.bin(OEq, BoolSort, cr, cs), cr)
			q = tt.un(OBNot, BoolSort, tt.bin(OEq, BoolSort, cr, cs))
			desc = fmt.Sprintf("%v  ~~>  %v", cr.debugString(8), cs.debugString(8))
			if cr == cs {
				continue
			}
		} else {
			w := []int{8, 16, 24, 32, 64}[r.Intn(5)]
			ar, as := g.build(w, 4, vars)
			if ar == as {
				continue
			}
			q = tt.un(OBNot, BoolSort, tt.bin(OEq, BoolSort, ar, as))
			desc = fmt.Sprintf("%v  ~~>  %v", ar.debugString(8), as.debugString(8))
		}
		s.NewPath()
		res, _ := s.Check(tt, q, false, nil)
		if s.dead {
			unknown++
			s.restart()
			continue
		}
		switch res {
		case Sat:
			bad++
			t.Errorf("case %d: rewriting changed the meaning:\n  %s", i, desc)
		case Unknown:
			unknown++
		}
		if bad > 5 {
			break
		}
	}
	t.Logf("%d cases, %d unsound, %d unknown", n, bad, unknown)
}
