package main

// Stubs for go-rangers' environment: logging, configuration, clocks.

import (
	"golang.org/x/tools/go/ssa"
)

const repoMod = "com.tuntun.rangers/node/src/"

func (in *Interp) repoFunc(pkgPath, name string) *ssa.Function {
	pkg := in.prog.ImportedPackage(pkgPath)
	if pkg == nil {
		panic(unsupported{"package not loaded: " + pkgPath})
	}
	f := pkg.Func(name)
	if f == nil {
		panic(unsupported{"function not found: " + pkgPath + "." + name})
	}
	return f
}

func (in *Interp) repoGlobal(pkgPath, name string) *Ptr {
	pkg := in.prog.ImportedPackage(pkgPath)
	if pkg == nil {
		panic(unsupported{"package not loaded: " + pkgPath})
	}
	g, ok := pkg.Members[name].(*ssa.Global)
	if !ok {
		panic(unsupported{"global not found: " + pkgPath + "." + name})
	}
	return &Ptr{obj: in.globalObj(g)}
}

func init() {
	lg := func(in *Interp, fr *frame, a []Value, _ *ssa.CallCommon) Value { return mkStubIface("logger") }
	reg(repoMod+"middleware/log.GetLogger", lg)
	reg(repoMod+"middleware/log.GetLoggerByIndex", lg)
	reg(repoMod+"middleware/log.GetLoggerByName", lg)
	reg(repoMod+"middleware/log.Close", zeroRes)

	// common.Init(instanceIndex, configFile, env): chain configuration without files/loggers
	reg(repoMod+"common.Init", func(in *Interp, fr *frame, a []Value, _ *ssa.CallCommon) Value {
		in.store(in.repoGlobal(repoMod+"common", "DefaultLogger"), mkStubIface("logger"))
		in.callSSA(fr, in.repoFunc(repoMod+"utility", "Init"), []Value{mkStubIface("logger")}, nil, false)
		in.callSSA(fr, in.repoFunc(repoMod+"common", "initChainConfig"), []Value{a[2]}, nil, false)
		return nil
	})
	reg(repoMod+"common.getGenesisConf", func(in *Interp, fr *frame, a []Value, _ *ssa.CallCommon) Value {
		return (*Ptr)(nil)
	})
}
