package main

// Stubs for go-rangers' environment: logging, configuration, clocks.

import (
	"go/types"

	"golang.org/x/tools/go/ssa"
)

const repoMod = "com.tuntun.rangers/node/src/"

func (in *Interp) repoFunc(pkgPath, name string) *ssa.Function {
	pkg := in.prog.ImportedPackage(pkgPath)
	if pkg == nil {
		panic(unsupported{"package not loaded: " + pkgPath})
	}
	f := pkg.Func(name)
	if f == nil {
		panic(unsupported{"function not found: " + pkgPath + "." + name})
	}
	return f
}

func (in *Interp) repoGlobal(pkgPath, name string) *Ptr {
	pkg := in.prog.ImportedPackage(pkgPath)
	if pkg == nil {
		panic(unsupported{"package not loaded: " + pkgPath})
	}
	g, ok := pkg.Members[name].(*ssa.Global)
	if !ok {
		panic(unsupported{"global not found: " + pkgPath + "." + name})
	}
	return &Ptr{obj: in.globalObj(g)}
}

// newNamedStruct allocates a zero value of the named struct type pkg.name.
func (in *Interp) newNamedStruct(pkgPath, name string) (*Ptr, *types.Struct) {
	pkg := in.prog.ImportedPackage(pkgPath)
	if pkg == nil {
		panic(unsupported{"package not loaded: " + pkgPath})
	}
	t := pkg.Type(name)
	if t == nil {
		panic(unsupported{"type not found: " + pkgPath + "." + name})
	}
	st := t.Type().Underlying().(*types.Struct)
	return &Ptr{obj: in.newObj(t.Type(), in.zero(t.Type()), name)}, st
}

func fieldIndex(st *types.Struct, name string) int {
	for i := 0; i < st.NumFields(); i++ {
		if st.Field(i).Name() == name {
			return i
		}
	}
	panic(unsupported{"field not found: " + name})
}

func init() {
	// service.InitMinerManager: the registry object without its LevelDB public-key cache
	reg(repoMod+"service.InitMinerManager", func(in *Interp, fr *frame, a []Value, _ *ssa.CallCommon) Value {
		p, st := in.newNamedStruct(repoMod+"service", "MinerManager")
		in.store(p.sub(fieldIndex(st, "logger")), mkStubIface("logger"))
		in.store(in.repoGlobal(repoMod+"service", "MinerManagerImpl"), p)
		return nil
	})
	// unsafe string/bytes conversions
	reg(repoMod+"utility.StrToBytes", func(in *Interp, fr *frame, a []Value, _ *ssa.CallCommon) Value {
		return in.mkByteSlice(in.strBytes(a[0]))
	})
	reg(repoMod+"utility.BytesToStr", func(in *Interp, fr *frame, a []Value, _ *ssa.CallCommon) Value {
		return in.mkStr(in.sliceTerms(a[0].(Slice)))
	})
	// cryptographic cores of the precompiled contracts: outside SMT reach; replaced by one of their
	// possible results (failure / zero output). Input-length handling around them stays real.
	errRes := func(n int) intrinsic {
		return func(in *Interp, fr *frame, a []Value, _ *ssa.CallCommon) Value {
			t := make(Tuple, n)
			for i := 0; i < n-1; i++ {
				t[i] = (*Ptr)(nil)
			}
			t[n-1] = in.newError("stubbed cryptographic core")
			return t
		}
	}
	reg(repoMod+"vm.newCurvePoint", errRes(2))
	reg(repoMod+"vm.newTwistPoint", errRes(2))
	// eth_crypto.Ecrecover runs on the ideal secp256k1 model (secp.go)
	reg(repoMod+"eth_crypto.SigToPub", errRes(2))
	reg(repoMod+"eth_crypto/blake2b.F", zeroRes)
	for _, n := range []string{"G1Add", "G1Mul", "G1MultiExp", "G2Add", "G2Mul", "G2MultiExp", "Pairing", "MapG1", "MapG2"} {
		reg("(*"+repoMod+"vm.bls12381"+n+").Run", func(in *Interp, fr *frame, a []Value, site *ssa.CallCommon) Value {
			return Tuple{Slice{}, in.newError("stubbed bls12381 precompile")}
		})
	}
	reg("(*"+repoMod+"vm.ripemd160hash).Run", func(in *Interp, fr *frame, a []Value, _ *ssa.CallCommon) Value {
		bs := make([]*Term, 32)
		for i := range bs {
			bs[i] = in.mkByte(0)
		}
		return Tuple{in.mkByteSlice(bs), Iface{}}
	})
	// VictoriaMetrics/fastcache (code cache of the account database): always misses
	fc := "github.com/VictoriaMetrics/fastcache"
	reg(fc+".New", func(in *Interp, fr *frame, a []Value, _ *ssa.CallCommon) Value {
		p, _ := in.newNamedStruct(fc, "Cache")
		return p
	})
	reg("(*"+fc+".Cache).Get", func(in *Interp, fr *frame, a []Value, _ *ssa.CallCommon) Value { return a[1] })
	reg("(*"+fc+".Cache).HasGet", func(in *Interp, fr *frame, a []Value, _ *ssa.CallCommon) Value {
		return Tuple{a[1], in.tt.False}
	})
	reg("(*"+fc+".Cache).Has", func(in *Interp, fr *frame, a []Value, _ *ssa.CallCommon) Value { return in.tt.False })
	reg("(*"+fc+".Cache).Set", zeroRes)
	reg("(*"+fc+".Cache).Del", zeroRes)
	reg("(*"+fc+".Cache).Reset", zeroRes)
	// the sqlite/mysql group index and log tables: not part of any claimed property
	for _, n := range []string{"InitMySql", "InsertGroup", "DeleteGroup", "InsertLogs", "DeleteLogs"} {
		reg(repoMod+"middleware/mysql."+n, func(in *Interp, fr *frame, a []Value, site *ssa.CallCommon) Value {
			return Iface{}
		})
	}
	reg(repoMod+"middleware/mysql.CountGroups", func(in *Interp, fr *frame, a []Value, _ *ssa.CallCommon) Value { return in.mkU64(0) })
	// LevelDB-backed caches (db.LDBDatabase): an in-memory key/value model per receiver
	ldb := "(*" + repoMod + "middleware/db.LDBDatabase)."
	ldbMap := func(in *Interp, recv Value) map[string]Value {
		if in.P.ldb == nil {
			in.P.ldb = map[string]map[string]Value{}
		}
		k := "nil"
		if p, ok := recv.(*Ptr); ok && !IsNilPtr(p) {
			k = p.String()
		}
		m, ok := in.P.ldb[k]
		if !ok {
			m = map[string]Value{}
			in.P.ldb[k] = m
		}
		return m
	}
	ldbKey := func(in *Interp, v Value) string {
		bs, ok := in.bytesIfConcrete(v.(Slice))
		if !ok {
			panic(unsupported{"LDBDatabase model with a symbolic key"})
		}
		return string(bs)
	}
	reg(ldb+"Put", func(in *Interp, fr *frame, a []Value, _ *ssa.CallCommon) Value {
		ldbMap(in, a[0])[ldbKey(in, a[1])] = in.mkByteSlice(in.sliceTerms(a[2].(Slice)))
		return Iface{}
	})
	reg(ldb+"Get", func(in *Interp, fr *frame, a []Value, _ *ssa.CallCommon) Value {
		if v, ok := ldbMap(in, a[0])[ldbKey(in, a[1])]; ok {
			return Tuple{in.mkByteSlice(in.sliceTerms(v.(Slice))), Iface{}}
		}
		return Tuple{Slice{}, in.newError("leveldb: not found")}
	})
	reg(ldb+"Has", func(in *Interp, fr *frame, a []Value, _ *ssa.CallCommon) Value {
		_, ok := ldbMap(in, a[0])[ldbKey(in, a[1])]
		return Tuple{in.mkBool(ok), Iface{}}
	})
	reg(ldb+"Delete", func(in *Interp, fr *frame, a []Value, _ *ssa.CallCommon) Value {
		delete(ldbMap(in, a[0]), ldbKey(in, a[1]))
		return Iface{}
	})
	reg(ldb+"Close", zeroRes)
	// github.com/pkg/errors: plain error values (no stack capture)
	reg("github.com/pkg/errors.New", func(in *Interp, fr *frame, a []Value, _ *ssa.CallCommon) Value { return in.newError(a[0]) })
	reg("github.com/pkg/errors.Errorf", func(in *Interp, fr *frame, a []Value, _ *ssa.CallCommon) Value {
		return in.newError(in.sprintf(a[0], a[1].(Slice)))
	})
	reg("runtime.Callers", func(in *Interp, fr *frame, a []Value, _ *ssa.CallCommon) Value { return in.mkInt(0) })
	lg := func(in *Interp, fr *frame, a []Value, _ *ssa.CallCommon) Value { return mkStubIface("logger") }
	reg(repoMod+"middleware/log.GetLogger", lg)
	reg(repoMod+"middleware/log.GetLoggerByIndex", lg)
	reg(repoMod+"middleware/log.GetLoggerByName", lg)
	reg(repoMod+"middleware/log.Close", zeroRes)

	// common.Init(instanceIndex, configFile, env): chain configuration without files/loggers
	reg(repoMod+"common.Init", func(in *Interp, fr *frame, a []Value, _ *ssa.CallCommon) Value {
		in.store(in.repoGlobal(repoMod+"common", "DefaultLogger"), mkStubIface("logger"))
		in.store(in.repoGlobal(repoMod+"common", "GlobalConf"), mkStubIface("conf"))
		in.callSSA(fr, in.repoFunc(repoMod+"utility", "Init"), []Value{mkStubIface("logger")}, nil, false)
		in.callSSA(fr, in.repoFunc(repoMod+"common", "initChainConfig"), []Value{a[2]}, nil, false)
		return nil
	})
	reg(repoMod+"common.getGenesisConf", func(in *Interp, fr *frame, a []Value, _ *ssa.CallCommon) Value {
		return (*Ptr)(nil)
	})
}

// utility.ntpOffset queries NTP servers (and retries forever when asked to): the clock offset is 0,
// as in the natively compiled replay (report.go patchNtp)
func init() {
	reg("com.tuntun.rangers/node/src/utility.ntpOffset", func(in *Interp, fr *frame, a []Value, _ *ssa.CallCommon) Value {
		return in.mkInt(0)
	})
}

// utility.GetTime = wall clock + NTP offset (refreshed by a background ticker): the fixed instant
// of the time.Now stub
func init() {
	reg("com.tuntun.rangers/node/src/utility.GetTime", func(in *Interp, fr *frame, a []Value, c *ssa.CallCommon) Value {
		return intrinsics["time.Now"](in, fr, nil, c)
	})
}
