package main

// encoding/hex on symbolic bytes: Encode produces, per byte, the two digit characters as canonical
// terms and remembers them; Decode of exactly such a pair returns the byte itself (the round trip
// common.ToHex / common.FromHex of a symbolic payload is the identity at term level instead of a
// nest of if-then-else the solver would have to undo). Everything else runs the real code.

import (
	"golang.org/x/tools/go/ssa"
)

type hexRec struct {
	b  *Term
	hi bool
}

func (in *Interp) hexDigit(n *Term) *Term { // n: 4-bit
	tt := in.tt
	z := tt.ZExt(n, 8)
	return tt.Ite(tt.Cmp(OUlt, z, in.mkByte(10)), tt.BVBin(OAdd, z, in.mkByte('0')), tt.BVBin(OAdd, z, in.mkByte('a'-10)))
}

func init() {
	reg("encoding/hex.Encode", func(in *Interp, fr *frame, a []Value, _ *ssa.CallCommon) Value {
		dst, src := a[0].(Slice), a[1].(Slice)
		bs := in.sliceTerms(src)
		sym := false
		for _, b := range bs {
			if !b.IsConst() {
				sym = true
			}
		}
		if !sym || dst.ln < 2*len(bs) {
			return runReal{}
		}
		if in.hexTab == nil {
			in.hexTab = map[*Term]hexRec{}
		}
		for i, b := range bs {
			hi, lo := in.hexDigit(in.tt.Extract(7, 4, b)), in.hexDigit(in.tt.Extract(3, 0, b))
			if !b.IsConst() {
				in.hexTab[hi] = hexRec{b, true}
				in.hexTab[lo] = hexRec{b, false}
			}
			in.store(&Ptr{obj: dst.arr, path: []int{dst.off + 2*i}}, hi)
			in.store(&Ptr{obj: dst.arr, path: []int{dst.off + 2*i + 1}}, lo)
		}
		return in.mkInt(int64(2 * len(bs)))
	})
	reg("encoding/hex.Decode", func(in *Interp, fr *frame, a []Value, _ *ssa.CallCommon) Value {
		dst, src := a[0].(Slice), a[1].(Slice)
		cs := in.sliceTerms(src)
		if len(cs)%2 != 0 || dst.ln < len(cs)/2 || in.hexTab == nil {
			return runReal{}
		}
		out := make([]*Term, len(cs)/2)
		any := false
		for i := range out {
			h, l := cs[2*i], cs[2*i+1]
			if h.IsConst() && l.IsConst() {
				v, ok1 := unhex(byte(h.cv))
				w, ok2 := unhex(byte(l.cv))
				if !ok1 || !ok2 {
					return runReal{}
				}
				out[i] = in.mkByte(v<<4 | w)
				continue
			}
			rh, ok1 := in.hexTab[h]
			rl, ok2 := in.hexTab[l]
			if !ok1 || !ok2 || rh.b != rl.b || !rh.hi || rl.hi {
				return runReal{}
			}
			out[i] = rh.b
			any = true
		}
		if !any {
			return runReal{}
		}
		for i, b := range out {
			in.store(&Ptr{obj: dst.arr, path: []int{dst.off + i}}, b)
		}
		return Tuple{in.mkInt(int64(len(out))), Iface{}}
	})
}

func unhex(c byte) (byte, bool) {
	switch {
	case '0' <= c && c <= '9':
		return c - '0', true
	case 'a' <= c && c <= 'f':
		return c - 'a' + 10, true
	case 'A' <= c && c <= 'F':
		return c - 'A' + 10, true
	}
	return 0, false
}
