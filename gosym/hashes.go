package main

// Hash functions: concrete input -> computed natively; symbolic input -> an uninterpreted
// function per (algorithm, input length). Congruence (equal inputs give equal digests) is what
// `unsat` results rely on; a `sat` result that depends on two different inputs is replayed
// with the real hash.

import (
	"crypto/sha256"
	"crypto/sha512"
	"fmt"
	"math/big"
	"strings"

	"golang.org/x/crypto/sha3"
	"golang.org/x/tools/go/ssa"
)

func nativeDigest(alg string, data []byte) []byte {
	switch alg {
	case "keccak256":
		h := sha3.NewLegacyKeccak256()
		h.Write(data)
		return h.Sum(nil)
	case "keccak512":
		h := sha3.NewLegacyKeccak512()
		h.Write(data)
		return h.Sum(nil)
	case "sha3-256":
		r := sha3.Sum256(data)
		return r[:]
	case "sha256":
		r := sha256.Sum256(data)
		return r[:]
	case "sha512":
		r := sha512.Sum512(data)
		return r[:]
	}
	panic("unknown hash " + alg)
}

func digestLen(alg string) int {
	switch alg {
	case "keccak512", "sha512":
		return 64
	}
	return 32
}

func (in *Interp) digest(alg string, data []*Term) []*Term {
	concrete := true
	for _, b := range data {
		if !b.IsConst() {
			concrete = false
			break
		}
	}
	n := digestLen(alg)
	out := make([]*Term, n)
	if concrete {
		bs := make([]byte, len(data))
		for i, b := range data {
			bs[i] = byte(b.cv)
		}
		d := nativeDigest(alg, bs)
		if in.preimages == nil {
			in.preimages = map[string][]byte{}
			in.preimageAlg = map[string]string{}
		}
		in.preimages[string(d)] = bs
		in.preimageAlg[string(d)] = alg
		for i, b := range d {
			out[i] = in.mkByte(b)
		}
		return out
	}
	cat := data[0]
	for _, b := range data[1:] {
		cat = in.tt.Concat(cat, b)
	}
	in.stubsUsed["hash "+alg+" of symbolic input: uninterpreted function"]++
	h := in.tt.App(fmt.Sprintf("H:%s:%d", alg, len(data)), BVSort(8*n), cat)
	for i := 0; i < n; i++ {
		hi := 8*(n-i) - 1
		out[i] = in.tt.Extract(hi, hi-7, h)
	}
	return out
}

// evalHashApp evaluates an H:<alg>:<len> application on a concrete argument.
func evalHashApp(tt *TermTable, name string, arg *Term) *Term {
	parts := strings.Split(name, ":")
	alg := parts[1]
	var n int
	fmt.Sscanf(parts[2], "%d", &n)
	bs := make([]byte, n)
	arg.ConstBig().FillBytes(bs)
	return tt.BVBig(8*digestLen(alg), new(big.Int).SetBytes(nativeDigest(alg, bs)))
}

// hashOf recognises a byte sequence that is exactly the digest of one symbolic hash application.
func hashOf(bs []*Term) *Term {
	if len(bs) == 0 || bs[0].op != OExtract {
		return nil
	}
	h := bs[0].args[0]
	if h.op != OApp || !strings.HasPrefix(h.name, "H:") || h.sort.W != 8*len(bs) {
		return nil
	}
	for i, b := range bs {
		hi := 8*(len(bs)-i) - 1
		if b.op != OExtract || b.args[0] != h || b.p1 != hi || b.p2 != hi-7 {
			return nil
		}
	}
	return h
}

// hashEq decides equality of two byte sequences when at least one is a symbolic digest, using
// injectivity ("no collisions are encountered"): H(a) == H(b) iff a == b; a symbolic digest
// equals a concrete digest iff the input equals the concrete preimage (if this run computed
// it), and is assumed different from constants with unknown preimage.
func (in *Interp) hashEq(x, y []*Term) (*Term, bool) {
	if len(x) != len(y) {
		return nil, false
	}
	hx, hy := hashOf(x), hashOf(y)
	if hx == nil && hy == nil {
		return nil, false
	}
	if hx != nil && hy != nil {
		if hx.name != hy.name {
			in.stubsUsed["hash injectivity: digests of inputs of different length are unequal"]++
			return in.tt.False, true
		}
		in.stubsUsed["hash injectivity: H(a)==H(b) iff a==b"]++
		return in.tt.Eq(hx.args[0], hy.args[0]), true
	}
	if hx == nil {
		hx, x, y = hy, y, x
	}
	// y must be fully concrete
	bs := make([]byte, len(y))
	for i, b := range y {
		if !b.IsConst() {
			return nil, false
		}
		bs[i] = byte(b.cv)
	}
	if pre, ok := in.preimages[string(bs)]; ok {
		parts := strings.Split(hx.name, ":")
		var n int
		fmt.Sscanf(parts[2], "%d", &n)
		if n != len(pre) || !strings.HasPrefix(hx.name, "H:"+in.preimageAlg[string(bs)]+":") {
			return in.tt.False, true
		}
		in.stubsUsed["hash injectivity: H(a)==H(b) iff a==b"]++
		return in.tt.Eq(hx.args[0], in.tt.BVBig(8*n, new(big.Int).SetBytes(pre))), true
	}
	in.stubsUsed["symbolic digest assumed different from a constant with unknown preimage"]++
	return in.tt.False, true
}

func (in *Interp) hashBuf(p *Ptr) *[]*Term {
	if in.P.hashBufs == nil {
		in.P.hashBufs = map[*Obj]*[]*Term{}
	}
	b, ok := in.P.hashBufs[p.obj]
	if !ok {
		b = new([]*Term)
		in.P.hashBufs[p.obj] = b
	}
	return b
}

func regHashState(typ, alg string) {
	reg("(*"+typ+").Write", func(in *Interp, fr *frame, a []Value, _ *ssa.CallCommon) Value {
		b := in.hashBuf(a[0].(*Ptr))
		d := in.sliceTerms(a[1].(Slice))
		*b = append(*b, d...)
		return Tuple{in.mkInt(int64(len(d))), Iface{}}
	})
	reg("(*"+typ+").Reset", func(in *Interp, fr *frame, a []Value, _ *ssa.CallCommon) Value {
		b := in.hashBuf(a[0].(*Ptr))
		*b = nil
		return nil
	})
	reg("(*"+typ+").Sum", func(in *Interp, fr *frame, a []Value, _ *ssa.CallCommon) Value {
		b := in.hashBuf(a[0].(*Ptr))
		d := in.digest(alg, *b)
		pre := in.sliceTerms(a[1].(Slice))
		return in.mkByteSlice(append(append([]*Term{}, pre...), d...))
	})
	reg("(*"+typ+").Read", func(in *Interp, fr *frame, a []Value, _ *ssa.CallCommon) Value {
		b := in.hashBuf(a[0].(*Ptr))
		d := in.digest(alg, *b)
		out := a[1].(Slice)
		n := out.ln
		if n > len(d) {
			panic(unsupported{"hash Read beyond digest length"})
		}
		for i := 0; i < n; i++ {
			in.store((&Ptr{obj: out.arr}).sub(out.off+i), d[i])
		}
		return Tuple{in.mkInt(int64(n)), Iface{}}
	})
}

func init() {
	// the repository's copy of keccak and the x/crypto one: the variant (keccak vs sha3, 256 vs
	// 512) is read from the state's dsbyte/outputLen fields at the constructor
	for _, pkg := range []string{repoMod + "common/sha3", "golang.org/x/crypto/sha3"} {
		pkg := pkg
		typ := pkg + ".state"
		byState := func(f func(in *Interp, alg string, a []Value) Value) intrinsic {
			return func(in *Interp, fr *frame, a []Value, _ *ssa.CallCommon) Value {
				p := a[0].(*Ptr)
				st := walk(p.obj.v, p.path).(*Struct)
				// locate outputLen and dsbyte by scanning scalar fields: dsbyte is the only 8-bit field
				alg := ""
				var outLen uint64
				var ds uint64 = 0xff
				for _, f := range st.F {
					if t, ok := f.(*Term); ok && t.IsConst() {
						if t.sort.W == 8 {
							ds = t.cv
						}
					}
				}
				// outputLen: struct field order (a [25]uint64, buf, rate, dsbyte, storage, outputLen, state)
				for i := len(st.F) - 1; i >= 0; i-- {
					if t, ok := st.F[i].(*Term); ok && t.IsConst() && t.sort.W == 64 && (t.cv == 32 || t.cv == 64 || t.cv == 28 || t.cv == 48) {
						outLen = t.cv
						break
					}
				}
				switch {
				case ds == 0x01 && outLen == 32:
					alg = "keccak256"
				case ds == 0x01 && outLen == 64:
					alg = "keccak512"
				case ds == 0x06 && outLen == 32:
					alg = "sha3-256"
				default:
					panic(unsupported{fmt.Sprintf("sha3 variant ds=%x len=%d", ds, outLen)})
				}
				return f(in, alg, a)
			}
		}
		reg("(*"+typ+").Write", func(in *Interp, fr *frame, a []Value, _ *ssa.CallCommon) Value {
			b := in.hashBuf(a[0].(*Ptr))
			d := in.sliceTerms(a[1].(Slice))
			*b = append(*b, d...)
			return Tuple{in.mkInt(int64(len(d))), Iface{}}
		})
		reg("(*"+typ+").Reset", func(in *Interp, fr *frame, a []Value, _ *ssa.CallCommon) Value {
			b := in.hashBuf(a[0].(*Ptr))
			*b = nil
			return nil
		})
		reg("(*"+typ+").Sum", byState(func(in *Interp, alg string, a []Value) Value {
			b := in.hashBuf(a[0].(*Ptr))
			d := in.digest(alg, *b)
			pre := in.sliceTerms(a[1].(Slice))
			return in.mkByteSlice(append(append([]*Term{}, pre...), d...))
		}))
		reg("(*"+typ+").Read", byState(func(in *Interp, alg string, a []Value) Value {
			b := in.hashBuf(a[0].(*Ptr))
			d := in.digest(alg, *b)
			out := a[1].(Slice)
			n := out.ln
			if n > len(d) {
				panic(unsupported{"hash Read beyond digest length"})
			}
			for i := 0; i < n; i++ {
				in.store((&Ptr{obj: out.arr}).sub(out.off+i), d[i])
			}
			return Tuple{in.mkInt(int64(n)), Iface{}}
		}))
	}
	regHashState("crypto/sha256.digest", "sha256")
	regHashState("github.com/minio/sha256-simd.digest", "sha256")
	sum := func(alg string) intrinsic {
		return func(in *Interp, fr *frame, a []Value, _ *ssa.CallCommon) Value {
			d := in.digest(alg, in.sliceTerms(a[0].(Slice)))
			arr := &Array{E: make([]Value, len(d))}
			for i, x := range d {
				arr.E[i] = x
			}
			return arr
		}
	}
	reg("crypto/sha256.Sum256", sum("sha256"))
	reg("github.com/minio/sha256-simd.Sum256", sum("sha256"))
	reg("crypto/sha512.Sum512", sum("sha512"))
	reg("golang.org/x/crypto/sha3.Sum256", sum("sha3-256"))
}
