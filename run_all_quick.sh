#!/bin/bash
# Runs every claimed check's quick command on /repo's current tree (one after the other) and
# prints a one-line verdict per property; the evidence files are rewritten by the runs.
cd "$(dirname "$0")"
rc=0
for p in $(python3 -c "import json;print(' '.join(c['property_id'] for c in json.load(open('MANIFEST.json'))['checks']))"); do
  rm -f evidence/$p.json
  out=$(./check.sh $p quick 2>&1); r=$?
  echo "$p exit=$r $(echo "$out" | grep -E '^SUMMARY' | cut -c1-220)"
  echo "$out" | grep -E '^(VIOLATION|INCONCLUSIVE|TRANSLATOR|ENCODER)' | cut -c1-200
  [ $r -ne 0 ] && rc=1
  [ -f evidence/$p.json ] || { echo "$p: NO EVIDENCE FILE"; rc=1; }
done
exit $rc
