#!/usr/bin/env python3
"""store_seed.py <prop> <seed-no> <pkgdir> <caught:yes|no> <by-which-check/label> : copies an agent's seed into /verif/seeded/<prop>-<n>/ with meta.json"""
import sys, os, json, shutil, re
prop, n, pkg, caught, by = sys.argv[1:6]
src = f"/tmp/wt-{prop}/SEED/{n}"
dst = f"/verif/seeded/{prop}-{n}"
os.makedirs(dst, exist_ok=True)
for f in ("patch.diff", "demo_test.go", "README.md"):
    shutil.copy(os.path.join(src, f), os.path.join(dst, f))
readme = open(os.path.join(src, "README.md")).read()
needs = ""
m = re.search(r"(?is)(needs|manifest|trigger)[^\n]*\n(.{0,600})", readme)
first = readme.strip().split("\n\n")[0][:600]
log = open("/tmp/confirm_all.log").read() if os.path.exists("/tmp/confirm_all.log") else ""
mm = re.search(rf"=== {prop} seed {n}\n(.*?)(?====|\Z)", log, re.S)
meta = {
  "property": prop,
  "seed": int(n),
  "source": "independent sub-agent given only the property text and its own scratch worktree",
  "package_dir_of_demo": pkg,
  "summary": first,
  "needs_to_manifest": "see README.md (written by the sub-agent): " + (m.group(0)[:500] if m else ""),
  "confirmed_in_scratch_worktree": (mm.group(1).strip().split("\n") if mm else ["see DESIGN.md"]),
  "confirm_command": f"/verif/confirm_seed.sh /tmp/wt-{prop} /tmp/wt-{prop}/SEED/{n} {pkg} TestSeed",
  "check_run": f"/verif/seedtest.sh {prop} /verif/seeded/{prop}-{n}/patch.diff   (git -C /repo apply; ./check.sh {prop} quick; git -C /repo checkout -- .)",
  "caught_by_check": caught == "yes",
  "caught_how": by,
}
json.dump(meta, open(os.path.join(dst, "meta.json"), "w"), indent=1)
print("stored", dst)
