#!/usr/bin/env python3
"""Generates MANIFEST.json from the table below (keeps it valid at all times)."""
import json, sys

CLAIMED = {
 # id: (level text, level_note, technique, design_ref)
}
NA = {}

def load_tables():
    import importlib.util, os
    spec = importlib.util.spec_from_file_location("claims", os.path.join(os.path.dirname(__file__), "claims.py"))
    m = importlib.util.module_from_spec(spec); spec.loader.exec_module(m)
    return m.CLAIMED, m.NA

def main():
    claimed, na = load_tables()
    checks = []
    for pid in sorted(claimed):
        c = claimed[pid]
        checks.append({
            "property_id": pid,
            "quick_cmd": f"./check.sh {pid} quick",
            "thorough_cmd": f"./check.sh {pid} thorough",
            "evidence_file": f"/verif/evidence/{pid}.json",
            "replay_cmd_template": f"./check.sh {pid} quick -replay {{path}}",
            "engine": "gosym",
            "level_claimed": {"category": "model_checking", "text": c["text"], "design_ref": c.get("design_ref", "DESIGN.md section 5 " + pid)},
            "level_note": c["note"],
            "technique": c.get("technique", "bounded symbolic execution of the real Go code (go/ssa -> SMT-LIB, z3) with native replay of counterexamples"),
        })
    man = {
        "version": 1,
        "setup_cmd": "./setup.sh",
        "hooks": {
            "guard": "verif",
            "enable": "none needed: harnesses are injected with go/packages Overlay and `go test -overlay`; no file of /repo is modified and no hook commit exists",
            "baseline_off_cmd": "cd /repo && GOFLAGS=-mod=mod GOPROXY=off go test -vet=off -count=1 -timeout 25m ./...",
            "source_commits": [],
            "add_only": True,
        },
        "engines": [{
            "name": "gosym",
            "path": "/verif/gosym",
            "serves_properties": sorted(claimed),
            "kind_free_text": "path-at-a-time symbolic interpreter of go/ssa (x/tools v0.29.0) regenerated from /repo's working tree on every run; bit-vector/Int terms; z3 4.8.12 over pipes; counterexamples replayed against the natively compiled real code",
        }],
        "checks": checks,
        "not_applicable": [{"property_id": k, "reason": v} for k, v in sorted(na.items())],
        "notes": "See DESIGN.md. Every check is bounded symbolic model checking; bounds, stubs and what lies outside are listed in each evidence file and in checks.json.",
    }
    json.dump(man, open("/verif/MANIFEST.json", "w"), indent=1)
    print("MANIFEST.json written:", len(checks), "checks,", len(na), "not applicable")

if __name__ == "__main__":
    main()
