package rlp

import (
	"bytes"
	"math/big"

	symx "com.tuntun.rangers/node/src/zz_symx"
)

// ---- round trips: Decode(Encode(v)) == v

func VerifC08_RoundTripUint64() {
	v := symx.U64("v")
	enc, err := EncodeToBytes(v)
	symx.Check(err == nil, "encode succeeds")
	symx.Check(len(enc) >= 1 && len(enc) <= 9, "uint64 encoding is 1..9 bytes")
	var w uint64
	err = DecodeBytes(enc, &w)
	symx.Check(err == nil, "decode of own encoding succeeds")
	symx.Check(w == v, "uint64 round trip")
	symx.Observe("enc", enc)
	symx.Reach("end")
}

func VerifC08_RoundTripSmall() {
	v8 := symx.U8("v8")
	enc, _ := EncodeToBytes(v8)
	var w8 uint8
	symx.Check(DecodeBytes(enc, &w8) == nil, "u8 decodes")
	symx.Check(w8 == v8, "u8 round trip")
	v16 := symx.U16("v16")
	enc, _ = EncodeToBytes(v16)
	var w16 uint16
	symx.Check(DecodeBytes(enc, &w16) == nil, "u16 decodes")
	symx.Check(w16 == v16, "u16 round trip")
	v32 := symx.U32("v32")
	enc, _ = EncodeToBytes(v32)
	var w32 uint32
	symx.Check(DecodeBytes(enc, &w32) == nil, "u32 decodes")
	symx.Check(w32 == v32, "u32 round trip")
	vb := symx.Bool("vb")
	enc, _ = EncodeToBytes(vb)
	var wb bool
	symx.Check(DecodeBytes(enc, &wb) == nil, "bool decodes")
	symx.Check(wb == vb, "bool round trip")
	symx.Reach("end")
}

func VerifC08_RoundTripBytes() {
	v := symx.BytesRange("v", 0, 6)
	enc, err := EncodeToBytes(v)
	symx.Check(err == nil, "encode succeeds")
	var w []byte
	symx.Check(DecodeBytes(enc, &w) == nil, "decode of own encoding succeeds")
	symx.Check(bytes.Equal(v, w), "bytes round trip")
	var s string
	enc2, _ := EncodeToBytes(string(v))
	symx.Check(bytes.Equal(enc, enc2), "string and []byte encode alike")
	symx.Check(DecodeBytes(enc2, &s) == nil, "string decodes")
	symx.Check(s == string(v), "string round trip")
	symx.Reach("end")
}

// strings around the 55/56-byte header boundary: only three bytes symbolic, length symbolic
func VerifC08_RoundTripLongBytes() {
	n := 53 + symx.Choice("n", 6) // 53..58
	v := make([]byte, n)
	x := symx.Bytes("x", 3)
	v[0], v[n/2], v[n-1] = x[0], x[1], x[2]
	enc, err := EncodeToBytes(v)
	symx.Check(err == nil, "encode succeeds")
	if n < 56 {
		symx.Check(len(enc) == n+1, "short string header is one byte")
	} else {
		symx.Check(len(enc) == n+2, "long string header is two bytes")
	}
	var w []byte
	symx.Check(DecodeBytes(enc, &w) == nil, "decode of own encoding succeeds")
	symx.Check(bytes.Equal(v, w), "long bytes round trip")
	symx.Reach("end")
}

// a long-form header claiming fewer than 56 bytes, or with leading zero length bytes, is rejected
func VerifC08_LongHeaderCanon() {
	n := 50 + symx.Choice("n", 10) // 50..59 payload bytes
	hdr := symx.Bytes("h", 3)
	b := append([]byte{hdr[0], hdr[1], hdr[2]}, make([]byte, n)...)
	var w []byte
	if err := DecodeBytes(b, &w); err == nil {
		out, _ := EncodeToBytes(w)
		symx.Check(bytes.Equal(out, b), "accepted long-header input re-encodes to itself")
	}
	symx.Reach("end")
}

func VerifC08_RoundTripBigInt() {
	v := symx.Big("v", 72)
	enc, err := EncodeToBytes(v)
	symx.Check(err == nil, "encode succeeds")
	var w *big.Int
	symx.Check(DecodeBytes(enc, &w) == nil, "decode of own encoding succeeds")
	symx.Check(w.Cmp(v) == 0, "big.Int round trip")
	symx.Reach("end")
}

func VerifC08T_RoundTripBigInt264() {
	v := symx.Big("v", 264)
	symx.Assume(v.Cmp(new(big.Int).Lsh(big.NewInt(1), 256)) >= 0)
	enc, err := EncodeToBytes(v)
	symx.Check(err == nil, "encode succeeds")
	symx.Check(len(enc) == 34, "33-byte integer has a one byte header")
	var w *big.Int
	symx.Check(DecodeBytes(enc, &w) == nil, "decode of own encoding succeeds")
	symx.Check(w.Cmp(v) == 0, "big.Int round trip")
	symx.Reach("end")
}

func VerifC08_RoundTripStruct() {
	v := c08Tail{A: symx.U64("a"), B: symx.BytesRange("b", 0, 2)}
	n := symx.Choice("n", 3)
	for i := 0; i < n; i++ {
		v.C = append(v.C, symx.U16("c"))
	}
	enc, err := EncodeToBytes(&v)
	symx.Check(err == nil, "encode succeeds")
	var w c08Tail
	symx.Check(DecodeBytes(enc, &w) == nil, "decode of own encoding succeeds")
	symx.Check(w.A == v.A, "A round trip")
	symx.Check(bytes.Equal(w.B, v.B), "B round trip")
	symx.Check(len(w.C) == len(v.C), "tail length round trip")
	for i := range v.C {
		if i < len(w.C) {
			symx.Check(w.C[i] == v.C[i], "tail element round trip")
		}
	}
	symx.Reach("end")
}

func VerifC08_RoundTripUintList() {
	n := symx.Choice("n", 4)
	var v []uint64
	for i := 0; i < n; i++ {
		v = append(v, symx.U64("e"))
	}
	enc, err := EncodeToBytes(v)
	symx.Check(err == nil, "encode succeeds")
	var w []uint64
	symx.Check(DecodeBytes(enc, &w) == nil, "decode of own encoding succeeds")
	symx.Check(len(w) == len(v), "list length round trip")
	for i := range v {
		if i < len(w) {
			symx.Check(w[i] == v[i], "list element round trip")
		}
	}
	symx.Reach("end")
}

// ---- nil-tagged pointers of the shapes the node uses (eth_tx.Transaction.Recipient is *[20]byte)

type c08NilArr struct {
	A uint64
	P *[4]byte `rlp:"nil"`
}

type c08Inner struct{ X uint64 }

type c08NilStruct struct {
	A uint64
	P *c08Inner `rlp:"nil"`
}

func VerifC08_CanonNilArray() {
	b := symx.BytesRange("b", 0, 7)
	var v c08NilArr
	if err := DecodeBytes(b, &v); err == nil {
		out, err2 := EncodeToBytes(&v)
		symx.Check(err2 == nil, "re-encode succeeds")
		symx.Check(bytes.Equal(out, b), "accepted input re-encodes to itself")
	}
	symx.Reach("end")
}

func VerifC08_CanonNilStruct() {
	b := symx.BytesRange("b", 0, 6)
	var v c08NilStruct
	if err := DecodeBytes(b, &v); err == nil {
		out, err2 := EncodeToBytes(&v)
		symx.Check(err2 == nil, "re-encode succeeds")
		symx.Check(bytes.Equal(out, b), "accepted input re-encodes to itself")
	}
	symx.Reach("end")
}

// ---- Stream API driven directly

func VerifC08_StreamTotal() {
	b := symx.BytesRange("b", 0, 7)
	symx.AllocLimit(2*len(b) + 8)
	s := NewStream(bytes.NewReader(b), uint64(len(b)))
	switch symx.Choice("op", 5) {
	case 0:
		raw, err := s.Raw()
		if err == nil {
			symx.Check(len(raw) <= len(b), "raw value within input")
			symx.Check(bytes.Equal(raw, b[:len(raw)]), "raw value is a prefix of the input")
		}
	case 1:
		x, err := s.Uint()
		if err == nil {
			out, _ := EncodeToBytes(x)
			symx.Check(bytes.Equal(out, b[:len(out)]), "Uint: canonical prefix")
		}
	case 2:
		_, _ = s.Bool()
	case 3:
		if _, err := s.List(); err == nil {
			var x uint64
			_ = s.Decode(&x)
			_ = s.ListEnd()
		}
	case 4:
		_, _ = s.Bytes()
		_, _, _ = s.Kind()
	}
	symx.Reach("end")
}
