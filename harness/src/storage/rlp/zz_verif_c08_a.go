package rlp

import (
	"bytes"
	"math/big"

	symx "com.tuntun.rangers/node/src/zz_symx"
)

func c08MaxLen() int {
	if symx.Thorough() {
		return 12
	}
	return 9
}

// Split / SplitString / SplitList / CountValues on arbitrary bytes: total, stay within input.
func VerifC08_SplitTotal() {
	b := symx.BytesRange("b", 0, c08MaxLen())
	k, content, rest, err := Split(b)
	if err == nil {
		symx.Check(len(content)+len(rest) <= len(b), "split: content+rest within input")
		symx.Observe("kind", int(k))
		symx.Observe("content", content)
		symx.Observe("rest", rest)
		// consistency with the Stream decoder on the first value
		s := NewStream(bytes.NewReader(b), uint64(len(b)))
		k2, size, err2 := s.Kind()
		if err2 == nil {
			symx.Check(k2 == k, "split kind == stream kind")
			if k != Byte {
				symx.Check(size == uint64(len(content)), "split size == stream size")
			}
		}
	}
	symx.Reach("end")
}

func VerifC08_SplitStringListTotal() {
	b := symx.BytesRange("b", 0, c08MaxLen())
	c, r, err := SplitString(b)
	if err == nil {
		symx.Check(len(c)+len(r) <= len(b), "splitstring within input")
	}
	c2, r2, err2 := SplitList(b)
	if err2 == nil {
		symx.Check(len(c2)+len(r2) <= len(b), "splitlist within input")
	}
	symx.Check(err != nil || err2 != nil || len(b) == 0, "a value is not both string and list")
	symx.Reach("end")
}

func VerifC08_CountValuesTotal() {
	b := symx.BytesRange("b", 0, c08MaxLen()-3)
	n, err3 := CountValues(b)
	if err3 == nil {
		symx.Check(n <= len(b), "count values bounded by input length")
		symx.Observe("count", n)
	}
	symx.Reach("end")
}

// DecodeBytes into []byte: accepted input re-encodes to itself (canonicity).
func VerifC08_CanonBytes() {
	b := symx.BytesRange("b", 0, c08MaxLen())
	symx.AllocLimit(2*len(b) + 8)
	var v []byte
	if err := DecodeBytes(b, &v); err == nil {
		out, err2 := EncodeToBytes(v)
		symx.Check(err2 == nil, "re-encode succeeds")
		symx.Check(bytes.Equal(out, b), "accepted input re-encodes to itself")
		symx.Observe("v", v)
	}
	symx.Reach("end")
}

func VerifC08_CanonUint64() {
	b := symx.BytesRange("b", 0, c08MaxLen())
	symx.AllocLimit(2*len(b) + 8)
	var v uint64
	if err := DecodeBytes(b, &v); err == nil {
		out, err2 := EncodeToBytes(v)
		symx.Check(err2 == nil, "re-encode succeeds")
		symx.Check(bytes.Equal(out, b), "accepted input re-encodes to itself")
		symx.Observe("v", v)
	}
	symx.Reach("end")
}

func VerifC08_CanonSmallUints() {
	b := symx.BytesRange("b", 0, 5)
	var v8 uint8
	if err := DecodeBytes(b, &v8); err == nil {
		out, _ := EncodeToBytes(v8)
		symx.Check(bytes.Equal(out, b), "uint8: accepted input re-encodes to itself")
	}
	var v16 uint16
	if err := DecodeBytes(b, &v16); err == nil {
		out, _ := EncodeToBytes(v16)
		symx.Check(bytes.Equal(out, b), "uint16: accepted input re-encodes to itself")
	}
	var v32 uint32
	if err := DecodeBytes(b, &v32); err == nil {
		out, _ := EncodeToBytes(v32)
		symx.Check(bytes.Equal(out, b), "uint32: accepted input re-encodes to itself")
	}
	var vb bool
	if err := DecodeBytes(b, &vb); err == nil {
		out, _ := EncodeToBytes(vb)
		symx.Check(bytes.Equal(out, b), "bool: accepted input re-encodes to itself")
	}
	symx.Reach("end")
}

func VerifC08_CanonString() {
	b := symx.BytesRange("b", 0, c08MaxLen())
	symx.AllocLimit(2*len(b) + 8)
	var v string
	if err := DecodeBytes(b, &v); err == nil {
		out, err2 := EncodeToBytes(v)
		symx.Check(err2 == nil, "re-encode succeeds")
		symx.Check(bytes.Equal(out, b), "accepted input re-encodes to itself")
	}
	symx.Reach("end")
}

func VerifC08_CanonArray4() {
	b := symx.BytesRange("b", 0, 7)
	var v [4]byte
	if err := DecodeBytes(b, &v); err == nil {
		out, err2 := EncodeToBytes(v)
		symx.Check(err2 == nil, "re-encode succeeds")
		symx.Check(bytes.Equal(out, b), "accepted input re-encodes to itself")
	}
	symx.Reach("end")
}

func VerifC08_CanonBigInt() {
	b := symx.BytesRange("b", 0, c08MaxLen())
	symx.AllocLimit(2*len(b) + 8)
	var v *big.Int
	if err := DecodeBytes(b, &v); err == nil {
		out, err2 := EncodeToBytes(v)
		symx.Check(err2 == nil, "re-encode succeeds")
		symx.Check(bytes.Equal(out, b), "accepted input re-encodes to itself")
		symx.Observe("v", v)
	}
	symx.Reach("end")
}

func VerifC08_CanonUintList() {
	b := symx.BytesRange("b", 0, c08MaxLen()-2)
	symx.AllocLimit(2*len(b) + 8)
	var v []uint64
	if err := DecodeBytes(b, &v); err == nil {
		out, err2 := EncodeToBytes(v)
		symx.Check(err2 == nil, "re-encode succeeds")
		symx.Check(bytes.Equal(out, b), "accepted input re-encodes to itself")
		symx.Observe("n", len(v))
	}
	symx.Reach("end")
}

type c08Struct struct {
	A uint64
	B []byte
}

type c08Tail struct {
	A uint64
	B []byte
	C []uint16 `rlp:"tail"`
}

type c08Nil struct {
	A uint64
	P *[]byte `rlp:"nil"`
}

func VerifC08_CanonStruct() {
	b := symx.BytesRange("b", 0, c08MaxLen()-2)
	symx.AllocLimit(2*len(b) + 8)
	var v c08Struct
	if err := DecodeBytes(b, &v); err == nil {
		out, err2 := EncodeToBytes(&v)
		symx.Check(err2 == nil, "re-encode succeeds")
		symx.Check(bytes.Equal(out, b), "accepted input re-encodes to itself")
		symx.Observe("A", v.A)
		symx.Observe("B", v.B)
	}
	symx.Reach("end")
}

func VerifC08_CanonTail() {
	b := symx.BytesRange("b", 0, c08MaxLen()-2)
	symx.AllocLimit(2*len(b) + 8)
	var v c08Tail
	if err := DecodeBytes(b, &v); err == nil {
		out, err2 := EncodeToBytes(&v)
		symx.Check(err2 == nil, "re-encode succeeds")
		symx.Check(bytes.Equal(out, b), "accepted input re-encodes to itself")
	}
	symx.Reach("end")
}

func VerifC08_CanonNilPtr() {
	b := symx.BytesRange("b", 0, c08MaxLen()-3)
	var v c08Nil
	if err := DecodeBytes(b, &v); err == nil {
		out, err2 := EncodeToBytes(&v)
		symx.Check(err2 == nil, "re-encode succeeds")
		symx.Check(bytes.Equal(out, b), "accepted input re-encodes to itself")
	}
	symx.Reach("end")
}

func VerifC08_CanonRaw() {
	b := symx.BytesRange("b", 0, c08MaxLen())
	symx.AllocLimit(2*len(b) + 8)
	var v RawValue
	if err := DecodeBytes(b, &v); err == nil {
		out, err2 := EncodeToBytes(v)
		symx.Check(err2 == nil, "re-encode succeeds")
		symx.Check(bytes.Equal(out, b), "accepted input re-encodes to itself")
	}
	symx.Reach("end")
}

func VerifC08_CanonGeneric() {
	b := symx.BytesRange("b", 0, c08MaxLen()-3)
	symx.AllocLimit(2*len(b) + 8)
	var v interface{}
	if err := DecodeBytes(b, &v); err == nil {
		out, err2 := EncodeToBytes(v)
		symx.Check(err2 == nil, "re-encode succeeds")
		symx.Check(bytes.Equal(out, b), "accepted input re-encodes to itself")
	}
	symx.Reach("end")
}
