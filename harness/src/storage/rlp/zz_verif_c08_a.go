package rlp

import (
	"bytes"

	symx "com.tuntun.rangers/node/src/zz_symx"
)

// Split on arbitrary bytes: total, stays within the input, and the pieces re-assemble.
func VerifC08_SplitTotal() {
	b := symx.BytesRange("b", 0, 5)
	k, content, rest, err := Split(b)
	if err == nil {
		symx.Check(len(content)+len(rest) <= len(b), "split: content+rest within input")
		symx.Observe("kind", int(k))
		symx.Observe("content", content)
		symx.Observe("rest", rest)
	}
	symx.Reach("end")
}

// DecodeBytes into []byte: accepted input re-encodes to itself (canonicity).
func VerifC08_CanonBytes() {
	b := symx.BytesRange("b", 0, 5)
	var v []byte
	if err := DecodeBytes(b, &v); err == nil {
		out, err2 := EncodeToBytes(v)
		symx.Check(err2 == nil, "re-encode succeeds")
		symx.Check(bytes.Equal(out, b), "accepted input re-encodes to itself")
		symx.Observe("v", v)
	}
	symx.Reach("end")
}
