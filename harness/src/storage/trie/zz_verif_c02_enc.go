package trie

import (
	"bytes"

	symx "com.tuntun.rangers/node/src/zz_symx"
)

// hex-prefix (compact) encoding: equals the Yellow Paper HP function and round-trips,
// for every nibble string of length 0..7 with and without terminator.
func VerifC02_CompactEncoding() {
	n := symx.Choice("n", 8)
	nib := symx.Bytes("nib", n)
	for i := range nib {
		symx.Assume(nib[i] < 16)
	}
	term := symx.Choice("term", 2) == 1
	hex := append([]byte{}, nib...)
	if term {
		hex = append(hex, 16)
	}
	compact := hexToCompact(hex)
	symx.Check(bytes.Equal(compact, c02HP(nib, term)), "hexToCompact equals the Yellow Paper HP function")
	back := compactToHex(compact)
	symx.Check(bytes.Equal(back, hex), "compactToHex(hexToCompact(h)) == h")
	symx.Check(hasTerm(hex) == term, "hasTerm")
	symx.Reach("end")
}

func VerifC02_KeybytesHex() {
	n := symx.Choice("n", 5)
	key := symx.Bytes("key", n)
	hex := keybytesToHex(key)
	symx.Check(len(hex) == 2*n+1 && hex[2*n] == 16, "keybytesToHex appends the terminator")
	for i := 0; i < n; i++ {
		symx.Check(hex[2*i] == key[i]>>4 && hex[2*i+1] == key[i]&15, "nibbles in order")
	}
	symx.Check(bytes.Equal(hexToKeybytes(hex), key), "hexToKeybytes(keybytesToHex(k)) == k")
	symx.Reach("end")
}

func VerifC02_PrefixLen() {
	na, nb := symx.Choice("na", 5), symx.Choice("nb", 5)
	a, b := symx.Bytes("a", na), symx.Bytes("b", nb)
	p := prefixLen(a, b)
	symx.Check(p <= na && p <= nb, "prefix length bounded")
	for i := 0; i < p; i++ {
		symx.Check(a[i] == b[i], "common prefix agrees")
	}
	if p < na && p < nb {
		symx.Check(a[p] != b[p], "prefix is maximal")
	}
	symx.Reach("end")
}
