package trie

import (
	"bytes"
	"sort"

	"com.tuntun.rangers/node/src/common"
	"com.tuntun.rangers/node/src/common/sha3"
	"com.tuntun.rangers/node/src/middleware/db"
	symx "com.tuntun.rangers/node/src/zz_symx"
)

// ---------- independent reference: Yellow Paper appendix D (c(J,i), n(J,i), HP)

func c02EncStr(b []byte) []byte {
	if len(b) == 1 && b[0] < 0x80 {
		return []byte{b[0]}
	}
	return append(c02Head(0x80, len(b)), b...)
}

func c02Head(base byte, n int) []byte {
	if n < 56 {
		return []byte{base + byte(n)}
	}
	if n < 256 {
		return []byte{base + 55 + 1, byte(n)}
	}
	return []byte{base + 55 + 2, byte(n >> 8), byte(n)}
}

func c02EncList(payload []byte) []byte { return append(c02Head(0xc0, len(payload)), payload...) }

func c02Keccak(b []byte) []byte {
	h := sha3.NewKeccak256()
	h.Write(b)
	return h.Sum(nil)
}

// hex-prefix encoding of a nibble string with terminator flag t
func c02HP(nib []byte, t bool) []byte {
	var f byte
	if t {
		f = 2
	}
	var out []byte
	if len(nib)%2 == 1 {
		out = append(out, 16*(f+1)+nib[0])
		nib = nib[1:]
	} else {
		out = append(out, 16*f)
	}
	for i := 0; i < len(nib); i += 2 {
		out = append(out, 16*nib[i]+nib[i+1])
	}
	return out
}

type c02Pair struct {
	k []byte // nibbles
	v []byte
}

// n(J,i): reference to the node: empty string, the node itself if shorter than 32 bytes, else its hash
func c02N(J []c02Pair, i int) []byte {
	if len(J) == 0 {
		return []byte{0x80}
	}
	c := c02C(J, i)
	if len(c) < 32 {
		return c
	}
	return c02EncStr(c02Keccak(c))
}

func c02C(J []c02Pair, i int) []byte {
	if len(J) == 1 {
		return c02EncList(append(c02EncStr(c02HP(J[0].k[i:], true)), c02EncStr(J[0].v)...))
	}
	// longest common prefix beyond i
	j := len(J[0].k)
	for _, p := range J[1:] {
		m := i
		for m < len(p.k) && m < len(J[0].k) && p.k[m] == J[0].k[m] {
			m++
		}
		if m < j {
			j = m
		}
	}
	if j > i {
		return c02EncList(append(c02EncStr(c02HP(J[0].k[i:j], false)), c02N(J, j)...))
	}
	var payload []byte
	for nib := byte(0); nib < 16; nib++ {
		var sub []c02Pair
		for _, p := range J {
			if len(p.k) > i && p.k[i] == nib {
				sub = append(sub, p)
			}
		}
		payload = append(payload, c02N(sub, i+1)...)
	}
	var v []byte
	for _, p := range J {
		if len(p.k) == i {
			v = p.v
		}
	}
	payload = append(payload, c02EncStr(v)...)
	return c02EncList(payload)
}

func c02RefRoot(m map[string][]byte) []byte {
	var J []c02Pair
	for k, v := range m {
		var nib []byte
		for i := 0; i < len(k); i++ {
			nib = append(nib, k[i]>>4, k[i]&15)
		}
		J = append(J, c02Pair{nib, v})
	}
	if len(J) == 0 {
		return c02Keccak([]byte{0x80})
	}
	sort.Slice(J, func(a, b int) bool { return bytes.Compare(J[a].k, J[b].k) < 0 })
	return c02Keccak(c02C(J, 0))
}

// ---------- key shapes and value lengths explored

var c02Keys = [][]byte{
	{},           // empty key: prefix of every key
	{0x12},       // prefix of the next two
	{0x12, 0x34}, //
	{0x12, 0x35}, // shares three nibbles with the previous
	{0x13},       // shares one nibble
	{0xf0, 0x00}, // different first nibble
}

// value lengths: 0 = delete; 29..33 cross the 32-byte node-embedding threshold for the leaf shapes above
var c02ValLens = []int{0, 1, 28, 29, 30, 31, 32, 33}

func c02Ops() int {
	if symx.Thorough() {
		return 3
	}
	return 2
}

func c02NewTrie() (*Trie, *NodeDatabase) {
	mem, _ := db.NewMemDatabase()
	ndb := NewDatabase(mem)
	t, _ := NewTrie(common.Hash{}, ndb)
	return t, ndb
}

// Histories of updates/deletes/overwrites with an optional commit + reopen in between:
// reads return the last written value, the root equals the Yellow-Paper root of the content.
func VerifC02_HistoriesVsSpec() {
	t, ndb := c02NewTrie()
	model := map[string][]byte{}
	n := c02Ops()
	for op := 0; op < n; op++ {
		k := c02Keys[symx.Choice("key", len(c02Keys))]
		l := c02ValLens[symx.Choice("len", len(c02ValLens))]
		v := symx.Bytes("val", l)
		err := t.TryUpdate(k, v)
		symx.Check(err == nil, "update succeeds")
		if l == 0 {
			delete(model, string(k))
		} else {
			model[string(k)] = v
		}
		if op == 0 && symx.Choice("commit", 2) == 1 {
			root, err := t.Commit(nil)
			symx.Check(err == nil, "commit succeeds")
			symx.Check(ndb.Commit(root, false) == nil, "database commit succeeds")
			// reopen from the committed root with a cold node cache
			t2, err := NewTrie(root, NewDatabase(ndb.diskdb))
			symx.Check(err == nil, "committed root can be reopened from the store alone")
			if err != nil {
				return
			}
			t = t2
		}
	}
	for _, k := range c02Keys {
		got, err := t.TryGet(k)
		symx.Check(err == nil, "get succeeds")
		want, ok := model[string(k)]
		if !ok {
			symx.Check(len(got) == 0, "absent key reads as empty")
		} else {
			symx.Check(bytes.Equal(got, want), "read returns the last value written")
		}
	}
	h := t.Hash()
	symx.Check(bytes.Equal(h[:], c02RefRoot(model)), "root equals the Yellow Paper root of the content")
	symx.Observe("root", h[:])
	symx.Reach("end")
}

// value lengths of the pre-state of VerifC02_ReloadThenModify: an embedded leaf, a leaf at the
// embedding threshold, a hashed leaf
var c02PreLens = []int{1, 29, 33}

// Two keys are written, the trie is committed to the store and reopened cold (every node is then
// decoded from its stored blob, embedded children included), and one more update / overwrite /
// delete follows: reads and the root still equal the specification's for the content.
func VerifC02_ReloadThenModify() {
	t, ndb := c02NewTrie()
	model := map[string][]byte{}
	for op := 0; op < 3; op++ {
		k := c02Keys[symx.Choice("key", len(c02Keys))]
		var l int
		if op < 2 {
			l = c02PreLens[symx.Choice("prelen", len(c02PreLens))]
		} else {
			l = c02ValLens[symx.Choice("len", len(c02ValLens))]
		}
		v := symx.Bytes("val", l)
		symx.Check(t.TryUpdate(k, v) == nil, "update succeeds")
		if l == 0 {
			delete(model, string(k))
		} else {
			model[string(k)] = v
		}
		if op == 1 {
			root, err := t.Commit(nil)
			symx.Check(err == nil, "commit succeeds")
			symx.Check(ndb.Commit(root, false) == nil, "database commit succeeds")
			t2, err := NewTrie(root, NewDatabase(ndb.diskdb))
			symx.Check(err == nil, "committed root can be reopened from the store alone")
			if err != nil {
				return
			}
			t = t2
		}
	}
	h := t.Hash()
	symx.Check(bytes.Equal(h[:], c02RefRoot(model)), "root after reload and modification equals the Yellow Paper root of the content")
	for _, k := range c02Keys {
		got, err := t.TryGet(k)
		symx.Check(err == nil, "get succeeds")
		want, ok := model[string(k)]
		if !ok {
			symx.Check(len(got) == 0, "absent key reads as empty")
		} else {
			symx.Check(bytes.Equal(got, want), "read returns the last value written")
		}
	}
	symx.Reach("end")
}
