package account

import (
	"bytes"
	"math/big"
	"strconv"

	"com.tuntun.rangers/node/src/common"
	"com.tuntun.rangers/node/src/middleware/db"
	symx "com.tuntun.rangers/node/src/zz_symx"
	"github.com/syndtr/goleveldb/leveldb/iterator"
)

// c03Disk is the physical store: an in-memory key/value map that records every batch write
// (atomic, as a LevelDB batch is) so that the store after any prefix of them can be rebuilt.
type c03Disk struct {
	mem     *db.MemDatabase
	log     [][][2][]byte
	logging bool
}

type c03Batch struct {
	d    *c03Disk
	kv   [][2][]byte
	size int
}

func newC03Disk() *c03Disk {
	m, _ := db.NewMemDatabase()
	return &c03Disk{mem: m}
}

func (d *c03Disk) Put(k, v []byte) error {
	if d.logging {
		d.log = append(d.log, [][2][]byte{{common.CopyBytes(k), common.CopyBytes(v)}})
	}
	return d.mem.Put(k, v)
}
func (d *c03Disk) Get(k []byte) ([]byte, error)   { return d.mem.Get(k) }
func (d *c03Disk) Has(k []byte) (bool, error)     { return d.mem.Has(k) }
func (d *c03Disk) Delete(k []byte) error          { return d.mem.Delete(k) }
func (d *c03Disk) Close()                         {}
func (d *c03Disk) NewBatch() db.Batch             { return &c03Batch{d: d} }
func (d *c03Disk) NewIterator() iterator.Iterator { return nil }
func (d *c03Disk) NewIteratorWithPrefix(prefix []byte) iterator.Iterator {
	return nil
}

func (b *c03Batch) Put(k, v []byte) error {
	b.kv = append(b.kv, [2][]byte{common.CopyBytes(k), common.CopyBytes(v)})
	b.size += len(v)
	return nil
}
func (b *c03Batch) ValueSize() int { return b.size }
func (b *c03Batch) Reset()         { b.kv, b.size = nil, 0 }
func (b *c03Batch) Write() error {
	if b.d.logging {
		b.d.log = append(b.d.log, b.kv)
	}
	for _, e := range b.kv {
		b.d.mem.Put(e[0], e[1])
	}
	return nil
}

// snapshot of the store contents
func (d *c03Disk) clone() *c03Disk {
	n := newC03Disk()
	for _, k := range d.mem.Keys() {
		v, _ := d.mem.Get(k)
		n.mem.Put(k, v)
	}
	return n
}

type c03Expect struct {
	balance map[common.Address]*big.Int
	nonce   map[common.Address]uint64
	data    map[common.Address]map[string][]byte
}

func newC03Expect() *c03Expect {
	return &c03Expect{balance: map[common.Address]*big.Int{}, nonce: map[common.Address]uint64{}, data: map[common.Address]map[string][]byte{}}
}

func (e *c03Expect) copy() *c03Expect {
	n := newC03Expect()
	for a, v := range e.balance {
		n.balance[a] = v
	}
	for a, v := range e.nonce {
		n.nonce[a] = v
	}
	for a, m := range e.data {
		n.data[a] = map[string][]byte{}
		for k, v := range m {
			n.data[a][k] = v
		}
	}
	return n
}

var c03Addrs = []common.Address{{19: 0xa1}, {19: 0xb2}, {19: 0xc3}}

func c03Big(n int, fill byte) []byte { return bytes.Repeat([]byte{fill}, n) }

// one block's worth of mutations; big selects values large enough to split the commit
func c03Mutate(st *AccountDB, e *c03Expect, tag string, big bool) {
	bals, nonces := []uint64{0, 1000000000000000000}, []uint64{0, 128}
	if symx.Thorough() {
		bals, nonces = []uint64{0, 1, 1000000000000000000}, []uint64{0, 1, 127, 128, 1 << 40}
	}
	v := new(big0).SetUint64(bals[symx.Choice(tag+".balance", len(bals))])
	st.SetBalance(c03Addrs[0], v)
	e.balance[c03Addrs[0]] = v
	n := nonces[symx.Choice(tag+".nonce", len(nonces))]
	st.SetNonce(c03Addrs[1], n)
	e.nonce[c03Addrs[1]] = n
	b := new(big0).SetUint64(uint64(symx.Choice(tag+".balanceB", 2)) + 1)
	st.SetBalance(c03Addrs[1], b)
	e.balance[c03Addrs[1]] = b
	small := []byte{symx.U8(tag + ".slot"), 1}
	// block execution ends with IntermediateRoot(true) (core/vmexecutor.go) before the state is
	// committed: Finalise drains the dirty storage sets. Both orders are explored.
	mid := symx.Choice(tag+".finalise", 2)
	for i, a := range c03Addrs {
		if e.data[a] == nil {
			e.data[a] = map[string][]byte{}
		}
		st.SetData(a, []byte("k"+tag), small)
		e.data[a]["k"+tag] = small
		if big {
			val := c03Big(70000, byte(0x30+i))
			st.SetData(a, []byte("big"+tag), val)
			e.data[a]["big"+tag] = val
		}
	}
	if mid == 1 {
		st.IntermediateRoot(true)
	}
}

type big0 = big.Int

// everything readable at a root from a cold start (fresh caches, the given store only)
func c03CheckRoot(disk *c03Disk, root common.Hash, e *c03Expect, what string) {
	st, err := NewAccountDB(root, NewDatabase(disk))
	symx.Check(err == nil && st != nil, what+": root opens from the disk store alone")
	if err != nil || st == nil {
		return
	}
	for _, a := range c03Addrs {
		if want, ok := e.balance[a]; ok {
			symx.Check(st.GetBalance(a).Cmp(want) == 0, what+": balance readable with the committed value")
		}
		if want, ok := e.nonce[a]; ok {
			symx.Check(st.GetNonce(a) == want, what+": nonce readable with the committed value")
		}
		for k, want := range e.data[a] {
			symx.Check(bytes.Equal(st.GetData(a, []byte(k)), want), what+": storage readable with the committed value")
		}
	}
	symx.Check(st.Error() == nil, what+": no missing node while reading")
}

func c03Run(bigFirst, bigSecond bool) {
	c04Setup()
	disk := newC03Disk()
	sdb := NewDatabase(disk)
	st, _ := NewAccountDB(common.Hash{}, sdb)
	e1 := newC03Expect()
	c03Mutate(st, e1, "b1", bigFirst)
	root1, err := st.Commit(true)
	if err != nil {
		panic(err)
	}
	if err := sdb.TrieDB().Commit(root1, false); err != nil {
		panic(err)
	}
	// (a) durable and complete after a successful commit
	c03CheckRoot(disk, root1, e1, "after commit")

	// second block on top; the physical writes of its commit are recorded
	st2, _ := NewAccountDB(root1, sdb)
	e2 := e1.copy()
	c03Mutate(st2, e2, "b2", bigSecond)
	root2, err := st2.Commit(true)
	if err != nil {
		panic(err)
	}
	before := disk.clone()
	disk.logging = true
	if err := sdb.TrieDB().Commit(root2, false); err != nil {
		panic(err)
	}
	disk.logging = false
	symx.Observe("batches", len(disk.log))

	// (b) the process dies after any prefix of the physical writes
	k := symx.Choice("prefix", len(disk.log)+1)
	crashed := before
	for _, batch := range disk.log[:k] {
		for _, kv := range batch {
			crashed.mem.Put(kv[0], kv[1])
		}
	}
	c03CheckRoot(crashed, root1, e1, "after crash: older root")
	has, _ := crashed.Has(root2[:])
	if k == len(disk.log) {
		symx.Check(has, "a commit that reported success has written its root")
	}
	if has {
		c03CheckRoot(crashed, root2, e2, "after crash: root whose top node is on disk")
	}
	symx.Reach("end")
}

func VerifC03_SmallCommit() { c03Run(false, false) }
func VerifC03_SplitCommit() { c03Run(false, true) }
func VerifC03T_BothSplit()  { c03Run(true, true) }

var _ = strconv.Itoa
