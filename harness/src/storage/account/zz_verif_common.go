package account

import "com.tuntun.rangers/node/src/common"

var c04Init bool

func c04Setup() {
	if !c04Init {
		common.Init(0, "verif.ini", "mainnet")
		Init()
		c04Init = true
	}
	common.SetBlockHeight(1 << 40)
}
