package account

import (
	"bytes"
	"math/big"

	"com.tuntun.rangers/node/src/common"
	"com.tuntun.rangers/node/src/middleware/db"
	"com.tuntun.rangers/node/src/middleware/types"
	symx "com.tuntun.rangers/node/src/zz_symx"
)

var (
	c04A = common.Address{19: 0xa1} // existing account with balance, nonce, a storage slot, code
	c04B = common.Address{19: 0xb2} // existing empty-ish account (balance only)
	c04C = common.Address{19: 0xc3} // does not exist in the committed state
	c04K = []common.Hash{{31: 1}, {31: 2}}
	c04T = common.Hash{0: 0x77}
)

func c04Addr(i int) common.Address { return []common.Address{c04A, c04B, c04C}[i] }

// c04NewState: a committed state with two accounts, reopened from its root
func c04NewState() *AccountDB {
	mem, _ := db.NewMemDatabase()
	adb := NewDatabase(mem)
	st, _ := NewAccountDB(common.Hash{}, adb)
	st.SetBalance(c04A, big.NewInt(1000))
	st.SetNonce(c04A, 5)
	st.SetState(c04A, c04K[0], common.Hash{31: 0x11})
	st.SetCode(c04A, []byte{1, 2, 3})
	st.SetData(c04A, []byte("k"), []byte{5})
	st.SetBalance(c04B, big.NewInt(20))
	root, err := st.Commit(true)
	if err != nil {
		panic(err)
	}
	st2, err := NewAccountDB(root, adb)
	if err != nil {
		panic(err)
	}
	st2.Prepare(c04T, common.Hash{}, 0)
	return st2
}

var c04KindNames = []string{"SetNonce", "IncreaseNonce", "SetState", "SetCode", "CreateAccount", "Suicide", "AddBalance", "SubBalance", "SetBalance",
	"AddRefund", "AddLog", "AddAddressToAccessList", "AddSlotToAccessList", "SetTransientState", "SetData"}

// c04Last names the mutator(s) applied since the snapshot that is being reverted (for labels)
var c04Last string

// one state-mutating call; kind, address, key and value are symbolic choices / values
func c04Mutate(st *AccountDB, tag string) {
	kind := symx.Choice(tag+"kind", 15)
	ai := symx.Choice(tag+"addr", 3)
	a := c04Addr(ai)
	c04Last = c04KindNames[kind] + " on " + []string{"A", "B", "C"}[ai]
	key := c04K[0]
	if kind == 2 || kind == 12 || kind == 13 {
		key = c04K[symx.Choice(tag+"key", 2)]
	}
	v8 := symx.U8(tag + "val")
	val := common.Hash{31: v8}
	amt := big.NewInt(0)
	if kind >= 6 && kind <= 8 {
		amt = big.NewInt([]int64{0, 1, 1000, 5000}[symx.Choice(tag+"amt", 4)]) // below, at and above the balances in the pre-state
	}
	switch kind {
	case 0:
		st.SetNonce(a, uint64(v8))
	case 1:
		st.IncreaseNonce(a)
	case 2:
		st.SetState(a, key, val)
	case 3:
		st.SetCode(a, []byte{v8})
	case 4:
		st.CreateAccount(a)
	case 5:
		st.Suicide(a)
	case 6:
		st.AddBalance(a, amt)
	case 7:
		st.SubBalance(a, amt)
	case 8:
		st.SetBalance(a, amt)
	case 9:
		st.AddRefund(uint64(v8))
	case 10:
		st.AddLog(&types.Log{Address: a, Data: []byte{v8}})
	case 11:
		st.AddAddressToAccessList(a)
	case 12:
		st.AddSlotToAccessList(a, key)
	case 13:
		st.SetTransientState(a, key, val)
	case 14:
		st.SetData(a, []byte("k"), []byte{v8})
	}
}

type c04Obs struct {
	nonce             [3]uint64
	bal               [3]*big.Int
	slot              [3][2]common.Hash
	tslot             [3][2]common.Hash
	code              [3][]byte
	codeHash          [3]common.Hash
	exist, empty, sui [3]bool
	inAL              [3]bool
	slotAL            [3][2]bool
	data              [3][]byte
	refund            uint64
	nlogs             int
}

func c04Observe(st *AccountDB) *c04Obs {
	o := &c04Obs{refund: st.GetRefund(), nlogs: len(st.GetLogs(c04T))}
	for i := 0; i < 3; i++ {
		a := c04Addr(i)
		o.nonce[i] = st.GetNonce(a)
		o.bal[i] = st.GetBalance(a)
		o.code[i] = st.GetCode(a)
		o.codeHash[i] = st.GetCodeHash(a)
		o.inAL[i] = st.AddressInAccessList(a)
		o.data[i] = st.GetData(a, []byte("k"))
		for k := 0; k < 2; k++ {
			o.slot[i][k] = st.GetState(a, c04K[k])
			o.tslot[i][k] = st.GetTransientState(a, c04K[k])
			_, o.slotAL[i][k] = st.SlotInAccessList(a, c04K[k])
		}
		// Empty() consults the per-object storage cache; it is observed after the slot reads above so
		// that the cache holds the same keys at every observation
		o.exist[i], o.empty[i], o.sui[i] = st.Exist(a), st.Empty(a), st.HasSuicided(a)
	}
	return o
}

func c04Same(x, y *c04Obs) {
	symx.Check(x.refund == y.refund, "refund counter restored")
	symx.Check(x.nlogs == y.nlogs, "logs restored")
	for i := 0; i < 3; i++ {
		symx.Check(x.nonce[i] == y.nonce[i], "nonce restored")
		symx.Check(x.bal[i].Cmp(y.bal[i]) == 0, "balance restored")
		symx.Check(bytes.Equal(x.code[i], y.code[i]) && x.codeHash[i] == y.codeHash[i], "code and code hash restored")
		symx.Check(x.exist[i] == y.exist[i], "existence restored")
		symx.Check(x.empty[i] == y.empty[i], "emptiness restored [after reverting "+c04Last+"]")
		symx.Check(x.sui[i] == y.sui[i], "self-destruct flag restored")
		symx.Check(x.inAL[i] == y.inAL[i], "access list (address) restored")
		symx.Check(bytes.Equal(x.data[i], y.data[i]), "account data restored")
		for k := 0; k < 2; k++ {
			symx.Check(x.slot[i][k] == y.slot[i][k], "storage slot restored")
			symx.Check(x.tslot[i][k] == y.tslot[i][k], "transient slot restored")
			symx.Check(x.slotAL[i][k] == y.slotAL[i][k], "access list (slot) restored")
		}
	}
}

// Snapshot; op; Revert: every observer answers as before, and the root afterwards equals the
// root of a twin state on which nothing happened. A first operation outside the snapshot makes
// the pre-state vary.
func VerifC04_RevertOne() {
	c04Setup()
	st := c04NewState()
	twin := c04NewState()
	if symx.Choice("pre", 2) == 1 {
		kind := symx.Choice("prekind", 7)
		for _, s := range []*AccountDB{st, twin} {
			switch kind {
			case 0:
				s.AddAddressToAccessList(c04A)
			case 1:
				s.SetState(c04C, c04K[1], common.Hash{31: 9})
			case 2:
				s.SetTransientState(c04A, c04K[0], common.Hash{31: 9})
			case 3:
				s.AddBalance(c04C, big.NewInt(7))
			case 4:
				s.SetState(c04A, c04K[0], common.Hash{}) // a committed slot removed, not yet finalised
			case 5:
				s.SetCode(c04B, []byte{9})
			case 6:
				s.RemoveData(c04A, []byte("k")) // committed data removed, not yet finalised
			}
		}
	}
	before := c04Observe(st)
	id := st.Snapshot()
	c04Mutate(st, "op1")
	st.RevertToSnapshot(id)
	c04Same(before, c04Observe(st))
	symx.Check(st.IntermediateRoot(true) == twin.IntermediateRoot(true), "root after revert equals the root had the operations never been executed")
	symx.Reach("end")
}

// nested: Snapshot; op1; Snapshot; op2; Revert(inner); op3; Revert(outer)
func VerifC04_RevertNested() {
	c04Setup()
	st := c04NewState()
	twin := c04NewState()
	before := c04Observe(st)
	outer := st.Snapshot()
	c04Mutate(st, "op1")
	mid := c04Observe(st)
	inner := st.Snapshot()
	c04Mutate(st, "op2")
	st.RevertToSnapshot(inner)
	c04Same(mid, c04Observe(st))
	if symx.Thorough() {
		c04Mutate(st, "op3")
	}
	c04Last = "an outer snapshot"
	st.RevertToSnapshot(outer)
	c04Same(before, c04Observe(st))
	symx.Check(st.IntermediateRoot(true) == twin.IntermediateRoot(true), "root after nested reverts equals the untouched root")
	symx.Reach("end")
}
