package utility

import (
	"math/big"

	symx "com.tuntun.rangers/node/src/zz_symx"
)

func c18Digits(name string, n int) string {
	return symx.Digits(name, n)
}

func c18Val(s string) *big.Int {
	v := new(big.Int)
	for i := 0; i < len(s); i++ {
		v.Mul(v, big.NewInt(10))
		v.Add(v, big.NewInt(int64(s[i]-'0')))
	}
	return v
}

var c18Ten = big.NewInt(10)

func c18Pow10(n int) *big.Int { return new(big.Int).Exp(c18Ten, big.NewInt(int64(n)), nil) }

// digit counts explored: quick samples the boundaries, thorough all 1..78
func c18IntDigits() int {
	if symx.Thorough() {
		return 1 + symx.Choice("idig", 78)
	}
	ds := []int{1, 19, 39, 78}
	return ds[symx.Choice("idig", len(ds))]
}

// Parsing "I.F" (I of 1..78 digits, F of 0..18 digits) yields exactly I*10^18 + F*10^(18-|F|).
func VerifC18_ParseExact() {
	ni := c18IntDigits()
	var nf int
	if symx.Thorough() {
		nf = symx.Choice("fdig", 19)
	} else {
		nf = []int{0, 1, 9, 17, 18}[symx.Choice("fdigq", 5)]
	}
	I := c18Digits("I", ni)
	s := I
	F := ""
	if nf > 0 {
		F = c18Digits("F", nf)
		s = I + "." + F
	}
	got, err := StrToBigInt(s)
	symx.Check(err == nil, "a plain decimal string parses")
	if err == nil {
		want := new(big.Int).Mul(c18Val(I), c18Pow10(18))
		want.Add(want, new(big.Int).Mul(c18Val(F), c18Pow10(18-nf)))
		symx.Check(got.Cmp(want) == 0, "StrToBigInt(I.F) == I*10^18 + F*10^(18-|F|)")
		symx.Observe("got", got)
	}
	symx.Reach("end")
}

// Formatting then parsing returns the same integer for 0 <= n < 2^256 (digit count forked).
func VerifC18_FormatParseRoundTrip() {
	n := symx.Big("n", 256)
	s := BigIntToStr(n)
	back, err := StrToBigInt(s)
	symx.Check(err == nil, "formatted amount parses")
	if err == nil {
		symx.Check(back.Cmp(n) == 0, "StrToBigInt(BigIntToStr(n)) == n")
	}
	symx.Reach("end")
}

func c18Decimals() int {
	if symx.Thorough() {
		return symx.Choice("d", 19)
	}
	return []int{0, 6, 17, 18}[symx.Choice("dq", 4)]
}

// Re-scaling to a token's unit: with 18 decimals the identity, with d < 18 truncation.
func VerifC18_RescaleERC20() {
	n := symx.Big("n", 256)
	d := c18Decimals()
	e := FormatDecimalForERC20(n, int64(d))
	if d == 18 {
		symx.Check(e.Cmp(n) == 0, "FormatDecimalForERC20(n,18) == n")
	} else {
		symx.Check(e.Cmp(new(big.Int).Quo(n, c18Pow10(18-d))) == 0, "ERC20(n,d) == trunc(n / 10^(18-d))")
	}
	symx.Reach("end")
}

// Re-scaling from a token's unit: with 18 decimals the identity, with d < 18 multiplication.
func VerifC18_RescaleRocket() {
	n := symx.Big("n", 256)
	d := c18Decimals()
	r := FormatDecimalForRocket(n, int64(d))
	if d == 18 {
		symx.Check(r.Cmp(n) == 0, "FormatDecimalForRocket(n,18) == n")
	} else {
		symx.Check(r.Cmp(new(big.Int).Mul(n, c18Pow10(18-d))) == 0, "Rocket(n,d) == n * 10^(18-d)")
	}
	symx.Reach("end")
}

func VerifC18_Uint64ToBigInt() {
	v := symx.U64("v")
	got := Uint64ToBigInt(v)
	want := new(big.Int).Mul(new(big.Int).SetUint64(v), c18Pow10(18))
	symx.Check(got.Cmp(want) == 0, "Uint64ToBigInt(v) == v*10^18")
	symx.Reach("end")
}
