package types

import (
	"bytes"
	"math/big"
	"time"

	"com.tuntun.rangers/node/src/common"
	middleware_pb "com.tuntun.rangers/node/src/middleware/pb"
	symx "com.tuntun.rangers/node/src/zz_symx"
	"github.com/gogo/protobuf/proto"
)

func c09Setup() { vtSetup() }

// optional fields of the wire message: present or absent, chosen symbolically
func c09OptBytes(name string, n int) []byte {
	switch symx.Choice(name+"?", 3) {
	case 0:
		return nil
	case 1:
		return []byte{}
	}
	return symx.Bytes(name, n)
}
func c09OptStr(name string) *string {
	if symx.Choice(name+"?", 2) == 0 {
		return nil
	}
	s := string(symx.Bytes(name, 2))
	return &s
}
func c09OptU64(name string) *uint64 {
	if symx.Choice(name+"?", 2) == 0 {
		return nil
	}
	v := symx.U64(name)
	return &v
}
func c09OptI32(name string) *int32 {
	if symx.Choice(name+"?", 2) == 0 {
		return nil
	}
	v := int32(symx.U32(name))
	return &v
}

// ---- totality: whichever optional fields a peer omits, parsing yields a value or an error

// A transaction message with every subset of its optional scalar fields absent.
func VerifC09_ParseTransactionTotal() {
	c09Setup()
	typ := int32(symx.U32("type"))
	m := &middleware_pb.Transaction{
		Data: c09OptStr("data"), Nonce: c09OptU64("nonce"), Target: c09OptStr("target"), Type: &typ,
		ExtraDataType: c09OptI32("edt"), Time: c09OptStr("time"), RequestId: c09OptU64("rid"), ChainId: c09OptStr("chain"),
		Hash: symx.Bytes("hash", 2), Sign: nil,
	}
	wire, err := proto.Marshal(m)
	symx.Assume(err == nil)
	_, _ = UnMarshalTransaction(wire)
	symx.Reach("end")
}

func c09PbTime(name string) []byte {
	if symx.Choice(name+"?", 2) == 0 {
		return nil
	}
	b, _ := time.Unix(int64(symx.U32(name)), 0).UTC().MarshalBinary()
	return b
}

// A block header message with every subset of its optional integer fields absent.
func VerifC09_ParseHeaderTotal() {
	c09Setup()
	now, _ := time.Unix(1700000000, 0).UTC().MarshalBinary()
	m := &middleware_pb.BlockHeader{
		Hash: symx.Bytes("hash", 2), Height: c09OptU64("height"), TotalQN: c09OptU64("qn"), Nonce: c09OptU64("nonce"),
		PreTime: now, CurTime: now, ProveValue: c09OptBytes("pv", 2),
	}
	wire, err := proto.Marshal(m)
	symx.Assume(err == nil)
	_, _ = UnMarshalBlockHeader(wire)
	symx.Reach("end")
}

// A group message with optional parts absent.
func VerifC09_ParseGroupTotal() {
	c09Setup()
	ch := symx.U64("ch")
	var hdr *middleware_pb.GroupHeader
	if symx.Choice("hdr?", 2) == 1 {
		hdr = &middleware_pb.GroupHeader{MemberRoot: symx.Bytes("mr", 2), CreateHeight: &ch, Extends: c09OptStr("ext")}
	}
	m := &middleware_pb.Group{Header: hdr, Id: symx.Bytes("id", 2), GroupHeight: c09OptU64("gh")}
	wire, err := proto.Marshal(m)
	symx.Assume(err == nil)
	_, _ = UnMarshalGroup(wire)
	symx.Reach("end")
}

func c09Bytes(mode int, name string, n int) []byte {
	switch mode {
	case 0:
		return nil
	case 1:
		return []byte{}
	}
	return symx.Bytes(name, n)
}

// ---- lossless: header -> wire -> header keeps content and hash

func c09Zone() *time.Location {
	switch symx.Choice("zone", 3) {
	case 1:
		return time.FixedZone("east", 8*3600)
	case 2:
		return time.FixedZone("west", -(3*3600 + 1800))
	}
	return time.UTC
}

func c09Header() *BlockHeader {
	loc := c09Zone()
	mode := symx.Choice("bytesmode", 3) // all optional byte fields absent / empty / present
	sec := int64(symx.U32("sec"))
	nsec := int64(symx.U32("nsec"))
	symx.Assume(nsec < 1000000000)
	h := &BlockHeader{
		Height: symx.U64("height"), TotalQN: symx.U64("qn"), Nonce: symx.U64("nonce"),
		PreTime: time.Unix(sec, nsec).In(loc), CurTime: time.Unix(sec+3, 0).In(loc),
		PreHash: common.BytesToHash(symx.Bytes("prehash", 32)),
		Castor:  c09Bytes(mode, "castor", 2), GroupId: c09Bytes(mode, "gid", 2), Signature: c09Bytes(mode, "sig", 2),
		ExtraData: c09Bytes(mode, "extra", 1), Random: c09Bytes(mode, "random", 2),
		Transactions: make([]common.Hashes, 0), EvictedTxs: make([]common.Hash, 0),
	}
	switch symx.Choice("pv", 4) {
	case 0:
		h.ProveValue = nil
	case 1:
		h.ProveValue = new(big.Int) // zero
	case 2:
		h.ProveValue = new(big.Int).SetBytes(symx.Bytes("pvb", 3)) // may have leading zero bytes
	case 3:
		n := 9
		if symx.Thorough() {
			n = 80 // VRF proofs are 80 bytes
		}
		h.ProveValue = new(big.Int).SetBytes(symx.Bytes("pvlong", n))
	}
	switch symx.Choice("rid", 4) {
	case 3: // empty but not nil (the shape of a genesis header): json renders {} rather than null
		h.RequestIds = map[string]uint64{}
	case 1:
		h.RequestIds = map[string]uint64{"a": symx.U64("rid_a")}
	case 2:
		h.RequestIds = map[string]uint64{"a": symx.U64("rid_a"), "b": symx.U64("rid_b")}
	}
	if symx.Choice("txs", 2) == 1 {
		h.Transactions = append(h.Transactions, common.Hashes{common.BytesToHash(symx.Bytes("tx0", 32)), common.BytesToHash(symx.Bytes("tx1", 32))})
		h.EvictedTxs = append(h.EvictedTxs, common.BytesToHash(symx.Bytes("ev", 32)))
	}
	h.Hash = h.GenHash()
	return h
}

func VerifC09_HeaderRoundTrip() {
	c09Setup()
	h := c09Header()
	wire, err := MarshalBlockHeader(h)
	symx.Check(err == nil && wire != nil, "header serialises")
	g, err := UnMarshalBlockHeader(wire)
	symx.Check(err == nil && g != nil, "own serialisation parses")
	if g == nil {
		return
	}
	symx.Check(g.Height == h.Height && g.TotalQN == h.TotalQN && g.Nonce == h.Nonce, "integers survive")
	symx.Check(g.PreHash == h.PreHash && g.Hash == h.Hash, "hashes survive")
	symx.Check((g.ProveValue == nil) == (h.ProveValue == nil), "prove value presence survives")
	if g.ProveValue != nil && h.ProveValue != nil {
		symx.Check(g.ProveValue.Cmp(h.ProveValue) == 0, "prove value survives")
	}
	symx.Check(g.PreTime.Equal(h.PreTime) && g.CurTime.Equal(h.CurTime), "instants survive")
	symx.Check(bytes.Equal(g.Castor, h.Castor) && bytes.Equal(g.Random, h.Random) && bytes.Equal(g.Signature, h.Signature), "byte fields survive")
	symx.Check(g.GenHash() == h.GenHash(), "identifying hash survives store/reload/relay")
	symx.Reach("end")
}
