package types

import (
	"com.tuntun.rangers/node/src/common"
	symx "com.tuntun.rangers/node/src/zz_symx"
)

func c01Tx(tag string, srcs []string) *Transaction {
	return &Transaction{Source: srcs[symx.Choice(tag+"src", len(srcs))], Nonce: symx.U64(tag + "nonce"), RequestId: uint64(symx.U8(tag + "rid")),
		Hash: common.BytesToHash(symx.Bytes(tag+"hash", 32))}
}

// The execution order is sort.Sort with Transactions.Less: on every triple of transactions with
// pairwise different hashes Less is irreflexive, asymmetric and transitive, and it never panics.
func VerifC01_LessIsStrictOrder() {
	vtSetup()
	common.SetBlockHeight(1 << 40)
	srcs := []string{"0x00000000000000000000000000000000000000a1", "0x00000000000000000000000000000000000000b2"}
	txs := Transactions{c01Tx("x", srcs), c01Tx("y", srcs), c01Tx("z", srcs)}
	symx.Assume(txs[0].Hash != txs[1].Hash)
	symx.Assume(txs[1].Hash != txs[2].Hash)
	symx.Assume(txs[0].Hash != txs[2].Hash)
	xy, yx := txs.Less(0, 1), txs.Less(1, 0)
	yz, xz := txs.Less(1, 2), txs.Less(0, 2)
	symx.Check(!(xy && yx), "Less is asymmetric")
	if xy && yz {
		symx.Check(xz, "Less is transitive")
	}
	symx.Reach("end")
}
