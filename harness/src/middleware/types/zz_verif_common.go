package types

import "com.tuntun.rangers/node/src/common"

var vtInit bool

// vtSetup: process-level initialisation (chain config, loggers) the node performs at start-up
func vtSetup() {
	if !vtInit {
		common.Init(0, "verif.ini", "mainnet")
		InitSerialzation()
		vtInit = true
	}
}
