package middleware

import (
	"com.tuntun.rangers/node/src/middleware/db"
	"com.tuntun.rangers/node/src/middleware/log"
	"com.tuntun.rangers/node/src/storage/account"
)

// VerifInitAccountDBManager builds the account-database manager over the given physical store
// (no LevelDB, no receive loop).
func VerifInitAccountDBManager(d db.Database) {
	AccountDBManagerInstance = AccountDBManager{}
	AccountDBManagerInstance.logger = log.GetLoggerByIndex(log.AccountDBLogConfig, "0")
	AccountDBManagerInstance.stateDB = account.NewDatabase(d)
	AccountDBManagerInstance.waitingTxs = NewPriorityQueue()
}
