package vm

import (
	"math/big"

	"com.tuntun.rangers/node/src/common"
	"com.tuntun.rangers/node/src/storage/account"
	symx "com.tuntun.rangers/node/src/zz_symx"
)

type c12Snap struct {
	root           common.Hash
	balA, balB     *big.Int
	balC, balO     *big.Int
	nonceA         uint64
	slot           common.Hash
	tslot          common.Hash
	nlogs          int
	suicidedA      bool
	suicidedB      bool
	existC, existB bool
	codeLenA       int
}

func c12Observe(st *account.AccountDB, thash common.Hash) c12Snap {
	return c12Snap{
		balA: st.GetBalance(c12A), balB: st.GetBalance(c12B), balC: st.GetBalance(c12C), balO: st.GetBalance(c12Orig),
		nonceA: st.GetNonce(c12A), slot: st.GetState(c12A, c12Key), tslot: st.GetTransientState(c12A, c12Key), nlogs: len(st.GetLogs(thash)),
		suicidedA: st.HasSuicided(c12A), suicidedB: st.HasSuicided(c12B), existC: st.Exist(c12C), existB: st.Exist(c12B), codeLenA: len(st.GetCode(c12A)),
	}
}

func c12Same(a, b c12Snap, what string) {
	symx.Check(a.balA.Cmp(b.balA) == 0, what+": balance of the contract unchanged")
	symx.Check(a.balB.Cmp(b.balB) == 0, what+": balance of the callee unchanged")
	symx.Check(a.balC.Cmp(b.balC) == 0, what+": balance of the beneficiary unchanged")
	symx.Check(a.balO.Cmp(b.balO) == 0, what+": balance of the origin unchanged")
	symx.Check(a.nonceA == b.nonceA, what+": nonce unchanged")
	symx.Check(a.slot == b.slot, what+": storage unchanged")
	symx.Check(a.tslot == b.tslot, what+": transient storage unchanged")
	symx.Check(a.nlogs == b.nlogs, what+": logs unchanged")
	symx.Check(a.suicidedA == b.suicidedA && a.suicidedB == b.suicidedB, what+": self-destruct flags unchanged")
	symx.Check(a.existC == b.existC && a.existB == b.existB, what+": set of existing accounts unchanged")
	symx.Check(a.codeLenA == b.codeLenA, what+": code unchanged")
}

// Static context: a frame running read-only performs a nested STATICCALL (to an account without
// code) and afterwards executes one arbitrary opcode on operands that make every state-modifying
// opcode effective. Whatever the opcode, nothing observable changes.
func VerifC12_StaticNoTrace() {
	symx.Option("maxconcretize", 300)
	op := symx.U8("op")
	nested := symx.Choice("nested", 2) == 1
	var code []byte
	if nested {
		code = c12Push(code, 0, 0, 0, 0, 0xb2) // out size, out off, in size, in off, address
		code = append(code, byte(PUSH2), 0xff, 0xff, byte(STATICCALL), byte(POP))
	}
	// operands for the opcode under test: value/size words of 1, address-like word c3, key 1
	code = c12Push(code, 0, 0, 0, 0, 1, 0xc3, 1)
	code = append(code, op, byte(STOP))
	st, evm, thash := c12Setup(code)
	before := c12Observe(st, thash)
	c := NewContract(AccountRef(c12Orig), AccountRef(c12A), new(big.Int), 10_000_000)
	c.Code = code
	_, _, _ = evm.interpreter.Run(c, nil, true)
	after := c12Observe(st, thash)
	c12Same(before, after, "static frame")
	symx.Check(st.IntermediateRoot(false) == func() common.Hash { st2, _, _ := c12Setup(code); return st2.IntermediateRoot(false) }(), "static frame: state root unchanged")
	symx.Reach("end")
}

// Failed frame: a call whose callee modifies state (one of several mutators, with a value
// transfer on the way in) and then ends in REVERT / INVALID / a bad jump / out of gas / STOP:
// unless it ended successfully nothing observable changes.
func VerifC12_FailedFrameNoTrace() {
	mut := symx.Choice("mut", 8)
	end := symx.Choice("end", 4)
	val := []uint64{0, 1, 7}[symx.Choice("value", 3)]
	var code []byte
	switch mut {
	case 0: // SSTORE key 1 := 9
		code = c12Push(code, 9, 1)
		code = append(code, byte(SSTORE))
	case 1: // LOG1
		code = c12Push(code, 5, 0, 0)
		code = append(code, byte(LOG1))
	case 2: // TSTORE
		code = c12Push(code, 9, 1)
		code = append(code, byte(TSTORE))
	case 3: // SELFDESTRUCT to C
		code = c12Push(code, 0xc3)
		code = append(code, byte(SELFDESTRUCT))
	case 4: // CALL with value 3 to C (creates C)
		code = c12Push(code, 0, 0, 0, 0, 3, 0xc3)
		code = append(code, byte(PUSH2), 0xff, 0xff, byte(CALL), byte(POP))
	case 5: // CREATE with value 2 and empty init code
		code = c12Push(code, 0, 0, 2)
		code = append(code, byte(CREATE), byte(POP))
	case 7: // nested: CALL to B, whose code self-destructs to C; then this frame ends as chosen
		code = c12Push(code, 0, 0, 0, 0, 0, 0xb2)
		code = append(code, byte(PUSH2), 0xff, 0xff, byte(CALL), byte(POP))
	case 6: // nested: CALL to B with value then SSTORE
		code = c12Push(code, 0, 0, 0, 0, 4, 0xb2)
		code = append(code, byte(PUSH2), 0xff, 0xff, byte(CALL), byte(POP))
		code = c12Push(code, 9, 1)
		code = append(code, byte(SSTORE))
	}
	switch end {
	case 0:
		code = c12Push(code, 0, 0)
		code = append(code, byte(REVERT))
	case 1:
		code = append(code, byte(INVALID))
	case 2:
		code = c12Push(code, 3)
		code = append(code, byte(JUMP)) // bad jump
	case 3:
		code = append(code, byte(STOP))
	}
	st, evm, thash := c12Setup(code)
	if mut == 7 {
		st.SetCode(c12B, []byte{byte(PUSH1), 0xc3, byte(SELFDESTRUCT)})
		st.SetBalance(c12B, big.NewInt(50))
		st.IntermediateRoot(false)
	}
	before := c12Observe(st, thash)
	_, _, _, err := evm.Call(AccountRef(c12Orig), c12A, nil, 1_000_000, new(big.Int).SetUint64(val))
	after := c12Observe(st, thash)
	if err != nil {
		c12Same(before, after, "failed frame")
		st2, _, _ := c12Setup(code)
		if mut == 7 {
			st2.SetCode(c12B, []byte{byte(PUSH1), 0xc3, byte(SELFDESTRUCT)})
			st2.SetBalance(c12B, big.NewInt(50))
		}
		symx.Check(st.IntermediateRoot(true) == st2.IntermediateRoot(true), "failed frame: state root unchanged")
	} else {
		symx.Reach("success")
	}
	symx.Reach("end")
}

// Per-transaction scratch state: after Prepare for the next transaction the access list and the
// transient storage are empty and the log list of the new transaction is empty.
func VerifC12_ScratchReset() {
	st := vfNewState()
	vfInit(1 << 40)
	t1, t2 := common.Hash{0: 1}, common.Hash{0: 2}
	st.Prepare(t1, common.Hash{}, 0)
	addr := common.BytesToAddress(symx.Bytes("addr", 20))
	slot := common.BytesToHash(symx.Bytes("slot", 32))
	val := common.BytesToHash(symx.Bytes("val", 32))
	st.AddAddressToAccessList(addr)
	st.AddSlotToAccessList(addr, slot)
	st.SetTransientState(addr, slot, val)
	st.AddRefund(7)
	st.IntermediateRoot(true) // end of transaction 1
	st.Prepare(t2, common.Hash{}, 1)
	symx.Check(!st.AddressInAccessList(addr), "next transaction starts with an empty access list (address)")
	a, s := st.SlotInAccessList(addr, slot)
	symx.Check(!a && !s, "next transaction starts with an empty access list (slot)")
	symx.Check(st.GetTransientState(addr, slot) == common.Hash{}, "next transaction starts with empty transient storage")
	symx.Check(len(st.GetLogs(t2)) == 0, "next transaction starts with no logs of its own")
	symx.Check(st.GetRefund() == 0, "refund counter does not leak into the next transaction")
	symx.Reach("end")
}

// Inner frames of every kind: contract A, which itself ends successfully, enters B's code through
// CALL / CALLCODE / DELEGATECALL; that code performs one mutator (on B's state for CALL, on A's own
// state for the other two kinds) and ends in REVERT / INVALID / a bad jump / STOP. A swallows the
// result. Unless the inner frame ended with STOP, nothing it did is observable afterwards.
func VerifC12_InnerFrameKinds() {
	kind := symx.Choice("kind", 3)
	mut := symx.Choice("mut", 6)
	end := symx.Choice("end", 4)
	var inner []byte
	switch mut {
	case 3: // SELFDESTRUCT to C (destroys B under CALL, A under CALLCODE / DELEGATECALL)
		inner = c12Push(inner, 0xc3)
		inner = append(inner, byte(SELFDESTRUCT))
	case 4: // CALL with value 3 to the fresh account C
		inner = c12Push(inner, 0, 0, 0, 0, 3, 0xc3)
		inner = append(inner, byte(PUSH2), 0xff, 0xff, byte(CALL), byte(POP))
	case 5: // CREATE with value 2 and empty init code (bumps the creator's nonce)
		inner = c12Push(inner, 0, 0, 2)
		inner = append(inner, byte(CREATE), byte(POP))
	case 0:
		inner = c12Push(inner, 9, 1)
		inner = append(inner, byte(SSTORE))
	case 1:
		inner = c12Push(inner, 5, 0, 0)
		inner = append(inner, byte(LOG1))
	case 2:
		inner = c12Push(inner, 9, 1)
		inner = append(inner, byte(TSTORE))
	}
	switch end {
	case 0:
		inner = c12Push(inner, 0, 0)
		inner = append(inner, byte(REVERT))
	case 1:
		inner = append(inner, byte(INVALID))
	case 2:
		inner = c12Push(inner, 3)
		inner = append(inner, byte(JUMP))
	case 3:
		inner = append(inner, byte(STOP))
	}
	var code []byte
	switch kind {
	case 0:
		code = c12Push(code, 0, 0, 0, 0, 0, 0xb2)
		code = append(code, byte(PUSH3), 0x0f, 0xff, 0xff, byte(CALL), byte(POP), byte(STOP))
	case 1:
		code = c12Push(code, 0, 0, 0, 0, 0, 0xb2)
		code = append(code, byte(PUSH3), 0x0f, 0xff, 0xff, byte(CALLCODE), byte(POP), byte(STOP))
	case 2:
		code = c12Push(code, 0, 0, 0, 0, 0xb2)
		code = append(code, byte(PUSH3), 0x0f, 0xff, 0xff, byte(DELEGATECALL), byte(POP), byte(STOP))
	}
	st, evm, thash := c12Setup(code)
	st.SetCode(c12B, inner)
	st.SetBalance(c12B, big.NewInt(50))
	st.IntermediateRoot(false)
	before := c12Observe(st, thash)
	slotB, tslotB, nonceB := st.GetState(c12B, c12Key), st.GetTransientState(c12B, c12Key), st.GetNonce(c12B)
	_, _, _, err := evm.Call(AccountRef(c12Orig), c12A, nil, 1_000_000, new(big.Int))
	symx.Check(err == nil, "the outer frame swallows the inner result and ends successfully")
	after := c12Observe(st, thash)
	// SELFDESTRUCT halts its frame successfully: whatever follows it is never executed
	if end != 3 && mut != 3 {
		c12Same(before, after, "failed inner frame")
		symx.Check(st.GetState(c12B, c12Key) == slotB, "failed inner frame: storage of the callee unchanged")
		symx.Check(st.GetTransientState(c12B, c12Key) == tslotB, "failed inner frame: transient storage of the callee unchanged")
		symx.Check(st.GetNonce(c12B) == nonceB, "failed inner frame: nonce of the callee unchanged")
		st2, _, _ := c12Setup(code)
		st2.SetCode(c12B, inner)
		st2.SetBalance(c12B, big.NewInt(50))
		symx.Check(st.IntermediateRoot(true) == st2.IntermediateRoot(true), "failed inner frame: state root unchanged")
	} else {
		// vacuity guard: a successful inner frame does leave its trace
		changed := after.slot != before.slot || after.tslot != before.tslot || after.nlogs != before.nlogs ||
			st.GetState(c12B, c12Key) != slotB || st.GetTransientState(c12B, c12Key) != tslotB ||
			after.suicidedA != before.suicidedA || after.suicidedB != before.suicidedB ||
			after.balA.Cmp(before.balA) != 0 || after.balB.Cmp(before.balB) != 0 || after.balC.Cmp(before.balC) != 0 ||
			after.nonceA != before.nonceA || st.GetNonce(c12B) != nonceB
		symx.Check(changed, "a successful inner frame is observable (the harness reaches the mutator)")
		symx.Reach("success")
	}
	symx.Reach("end")
}
