package vm

import (
	"math/bits"

	"com.tuntun.rangers/node/src/common"
	"com.tuntun.rangers/node/src/utility"
	symx "com.tuntun.rangers/node/src/zz_symx"
	"github.com/holiman/uint256"
)

// The reference side of these lemmas is written with math/bits (128-bit intermediate results as
// (hi, lo) pairs), i.e. exact unsigned integer arithmetic that stays in the bit-vector theory.

func VerifC11_SafeMath() {
	x, y := symx.U64("x"), symx.U64("y")
	s, of := utility.SafeAdd(x, y)
	sum, carry := bits.Add64(x, y, 0)
	symx.Check(of == (carry != 0), "SafeAdd overflow flag is exact")
	symx.Check(of || s == sum, "SafeAdd sum is exact")
	p, of2 := utility.SafeMul(x, y)
	hi, lo := bits.Mul64(x, y)
	symx.Check(of2 == (hi != 0), "SafeMul overflow flag is exact")
	symx.Check(of2 || p == lo, "SafeMul product is exact")
	symx.Reach("end")
}

func VerifC11_ToWordSize() {
	size := symx.U64("size")
	w := toWordSize(size)
	// ceil(size/32) = (size+31) >> 5 over 65 bits
	sum, carry := bits.Add64(size, 31, 0)
	want := carry<<59 | sum>>5
	symx.Check(w == want, "toWordSize == ceil(size/32) without wrap-around")
	symx.Reach("end")
}

func VerifC11_CalcMemSize() {
	off := uint256.Int{symx.U64("o0"), symx.U64("o1"), symx.U64("o2"), symx.U64("o3")}
	l := uint256.Int{symx.U64("l0"), symx.U64("l1"), symx.U64("l2"), symx.U64("l3")}
	size, of := calcMemSize64(&off, &l)
	lenFits := symx.And(l[1] == 0, symx.And(l[2] == 0, l[3] == 0))
	offFits := symx.And(off[1] == 0, symx.And(off[2] == 0, off[3] == 0))
	sum, carry := bits.Add64(off[0], l[0], 0)
	zeroLen := symx.And(lenFits, l[0] == 0)
	// specification: zero length -> (0,false); else overflow iff offset, length or their sum exceed 64 bits
	wantOf := symx.And(symx.Not(zeroLen), symx.Or(symx.Not(lenFits), symx.Or(symx.Not(offFits), carry != 0)))
	symx.Check(of == wantOf, "overflow flag is exact")
	symx.Check(symx.Implies(zeroLen, size == 0), "zero length needs no memory")
	symx.Check(symx.Implies(symx.And(symx.Not(of), symx.Not(zeroLen)), size == sum), "memory size == offset + length")
	symx.Reach("end")
}

// memoryGasCost: equals 3w + floor(w^2/512) minus what was already paid (times the Proposal026
// magnification), without uint64 wrap, for every size it accepts; rejects everything above.
func VerifC11_MemoryGasCost() {
	vfInit(1 << 40)
	newSize := symx.U64("newSize")
	oldWords := uint64(symx.Choice("oldWords", 3))
	paid := oldWords*MemoryGas + oldWords*oldWords/QuadCoeffDiv
	mem := NewMemory()
	mem.Resize(oldWords * 32)
	mem.lastGasCost = paid
	fee, err := memoryGasCost(mem, newSize)
	if newSize > 0x1FFFFFFFE0 {
		symx.Check(err != nil, "sizes whose cost would overflow are rejected")
	} else {
		symx.Check(err == nil, "accepted size")
		w := (newSize + 31) / 32 // no wrap: newSize <= 0x1FFFFFFFE0
		if w > oldWords {
			sqHi, sq := bits.Mul64(w, w)
			linHi, lin := bits.Mul64(w, MemoryGas)
			tot, c1 := bits.Add64(lin, sq/QuadCoeffDiv, 0)
			symx.Check(sqHi == 0 && linHi == 0 && c1 == 0, "3w + w^2/512 fits uint64")
			want := tot - paid
			if common.IsProposal026() {
				mHi, m := bits.Mul64(want, common.GasMagnification)
				symx.Check(mHi == 0, "magnified memory fee fits uint64")
				want = m
			}
			symx.Check(fee == want, "memory fee == (3w + w^2/512 - paid) * magnification")
		} else {
			symx.Check(fee == 0, "no growth, no fee")
		}
	}
	symx.Reach("end")
}

// callGas (EIP-150): never hands out more than all-but-one-64th of what is left after the base cost
func VerifC11_CallGas() {
	avail, base := symx.U64("avail"), symx.U64("base")
	symx.Assume(base <= avail) // callers subtract a base cost they have already checked
	cost := uint256.Int{symx.U64("c0"), symx.U64("c1"), 0, 0}
	g, err := callGas(true, avail, base, &cost)
	symx.Check(err == nil, "EIP-150 callGas does not fail")
	rem := avail - base
	symx.Check(g <= rem-rem/64, "callee gas <= 63/64 of the remaining gas")
	if cost[1] == 0 && cost[0] <= rem-rem/64 {
		symx.Check(g == cost[0], "requested gas is granted when it fits")
	}
	symx.Reach("end")
}
