package vm

import (
	"math/big"

	symx "com.tuntun.rangers/node/src/zz_symx"
)

// c11Byte: the symbolic low byte of an operand, restricted (stated bound) to 0..3 and 252..255 so
// that offsets/sizes sit on both sides of the word and wrap-around boundaries of each class.
func c11Byte(name string) []byte {
	b := symx.Bytes(name, 1)
	symx.Assume(symx.Or(b[0] <= 3, b[0] >= 252))
	return b
}

// c11Word: a stack word of one of three magnitude classes with 8 symbolic low bits:
// small (s), just below 2^64 (2^64 - 256 + s), just below 2^256 (2^256 - 256 + s).
func c11Word(class int, s []byte) []byte {
	w := make([]byte, 32)
	switch class {
	case 1:
		for i := 24; i < 31; i++ {
			w[i] = 0xff
		}
	case 2:
		for i := 0; i < 31; i++ {
			w[i] = 0xff
		}
	}
	w[31] = s[0]
	return w
}

// One instruction with an arbitrary opcode byte on a 7-deep stack of arbitrary words (the two top
// words range over three magnitude classes each), with an arbitrary gas limit, in normal and in
// read-only mode: the host does not panic and gas only decreases.
func VerifC11_OneStep() {
	symx.Option("maxconcretize", 300)
	st := vfNewState()
	evm := vfNewEVMState(1<<40, st)
	op := symx.U8("op")
	// the call/create family spawns a nested frame: it has its own harness (VerifC11_CallCreate)
	symx.Assume(op != byte(CALL) && op != byte(CALLCODE) && op != byte(DELEGATECALL) && op != byte(STATICCALL) && op != byte(CREATE) && op != byte(CREATE2) && op != byte(AUTHCALL))
	gas := symx.U64("gas")
	var c0, c1 int
	if symx.Thorough() {
		c0, c1 = symx.Choice("class0", 3), symx.Choice("class1", 3)
	} else {
		cc := [][2]int{{0, 0}, {1, 0}}[symx.Choice("classes", 2)]
		c0, c1 = cc[0], cc[1]
	}
	var code []byte
	for i := 0; i < 7; i++ {
		cls := 0
		if i == 6 {
			cls = c0 // pushed last = top of stack
		} else if i == 5 {
			cls = c1
		}
		code = append(code, byte(PUSH32))
		if i >= 4 || symx.Thorough() {
			code = append(code, c11Word(cls, c11Byte("w"))...)
		} else {
			code = append(code, c11Word(cls, []byte{byte(3 * (i + 1))})...) // deeper operands: small constants in the quick tier
		}
	}
	code = append(code, op)
	code = append(code, make([]byte, 33)...) // STOPs (and zero push data)
	c := NewContract(AccountRef(vfAddr), AccountRef(vfAddr), new(big.Int), gas)
	c.Code = code
	readOnly := symx.Choice("ro", 2) == 1
	_, _, err := evm.interpreter.Run(c, []byte{1, 2, 3}, readOnly)
	symx.Check(c.Gas <= gas, "gas left never exceeds the gas supplied")
	_ = err
	symx.Reach("op " + OpCode(op).String())
	symx.Reach("end")
}

// the same with too few operands: every opcode on a stack of 0 or 1 items
func VerifC11_OneStepShallow() {
	symx.Option("maxconcretize", 300)
	st := vfNewState()
	evm := vfNewEVMState(1<<40, st)
	op := symx.U8("op")
	gas := symx.U64("gas")
	var code []byte
	if symx.Choice("k", 2) == 1 {
		code = append(code, byte(PUSH1))
		code = append(code, symx.Bytes("w", 1)...)
	}
	code = append(code, op)
	code = append(code, make([]byte, 33)...)
	c := NewContract(AccountRef(vfAddr), AccountRef(vfAddr), new(big.Int), gas)
	c.Code = code
	_, _, _ = evm.interpreter.Run(c, []byte{1, 2, 3}, false)
	symx.Check(c.Gas <= gas, "gas left never exceeds the gas supplied")
	symx.Reach("end")
}


// CALL / CALLCODE / DELEGATECALL / STATICCALL / AUTHCALL / CREATE / CREATE2 with an arbitrary callee
// address byte (precompiles 1..18, the caller itself, empty accounts), arbitrary value byte and
// arbitrary gas: no panic, gas only decreases.
func VerifC11_CallCreate() {
	st := vfNewState()
	evm := vfNewEVMState(1<<40, st)
	ops := []OpCode{CALL, CALLCODE, DELEGATECALL, STATICCALL, AUTHCALL, CREATE, CREATE2}
	op := ops[symx.Choice("op", len(ops))]
	gas := symx.U64("gas")
	addr := symx.U8("addr")
	val := symx.U8("val")
	reqGas := symx.Bytes("reqgas", 2)
	var code []byte
	push1 := func(b byte) { code = append(code, byte(PUSH1), b) }
	switch op {
	case CREATE:
		push1(4) // size
		push1(0) // offset
		push1(val)
	case CREATE2:
		push1(7) // salt
		push1(4)
		push1(0)
		push1(val)
	default:
		push1(32) // out size
		push1(64) // out offset
		push1(36) // in size
		push1(0)  // in offset
		if op == CALL || op == CALLCODE || op == AUTHCALL {
			push1(val)
		}
		if op == AUTHCALL {
			push1(0) // valueExt
		}
		push1(addr)
		code = append(code, byte(PUSH2), reqGas[0], reqGas[1])
	}
	code = append(code, byte(op), byte(STOP))
	c := NewContract(AccountRef(vfAddr), AccountRef(vfAddr), new(big.Int), gas)
	c.Code = code
	readOnly := symx.Choice("ro", 2) == 1
	_, _, _ = evm.interpreter.Run(c, nil, readOnly)
	symx.Check(c.Gas <= gas, "gas left never exceeds the gas supplied")
	symx.Reach("end")
}
