package vm

import (
	"math/big"

	"com.tuntun.rangers/node/src/common"
	"com.tuntun.rangers/node/src/middleware/db"
	"com.tuntun.rangers/node/src/service"
	"com.tuntun.rangers/node/src/storage/account"
)

var vfInitDone bool

// vfInit: process-level initialisation the node performs at start-up (loggers, chain config).
func vfInit(height uint64) {
	if !vfInitDone {
		common.Init(0, "verif.ini", "mainnet")
		InitVM()
		service.InitMinerManager()
		service.InitRefundManager(nil, nil)
		vfInitDone = true
	}
	common.SetBlockHeight(height)
}

// vfNewInterp builds an interpreter over a nil StateDB at the given block height.
func vfNewEVM(height uint64, db StateDB) *EVM {
	vfInit(height)
	return NewEVM(Context{BlockNumber: new(big.Int).SetUint64(height), Time: new(big.Int), Difficulty: new(big.Int), GasPrice: new(big.Int), GasLimit: 1 << 62,
		CanTransfer: CanTransfer, Transfer: Transfer}, db)
}

var vfAddr = common.Address{0xaa}

// vfRun executes code in a fresh frame.
func vfRun(evm *EVM, code []byte, input []byte, gas uint64) (ret []byte, left uint64, err error) {
	c := NewContract(AccountRef(vfAddr), AccountRef(vfAddr), new(big.Int), gas)
	c.Code = code
	ret, _, err = evm.interpreter.Run(c, input, false)
	return ret, c.Gas, err
}

func vfPush32(code []byte, w [32]byte) []byte {
	code = append(code, byte(PUSH32))
	return append(code, w[:]...)
}

// program: push operands (last operand pushed first), op, then return the top word
func vfBinProgram(op OpCode, a, b [32]byte) []byte {
	var code []byte
	code = vfPush32(code, b)
	code = vfPush32(code, a)
	code = append(code, byte(op))
	code = append(code, byte(PUSH1), 0, byte(MSTORE), byte(PUSH1), 32, byte(PUSH1), 0, byte(RETURN))
	return code
}

func vfUnProgram(op OpCode, a [32]byte) []byte {
	var code []byte
	code = vfPush32(code, a)
	code = append(code, byte(op))
	code = append(code, byte(PUSH1), 0, byte(MSTORE), byte(PUSH1), 32, byte(PUSH1), 0, byte(RETURN))
	return code
}

func vfTerProgram(op OpCode, a, b, c [32]byte) []byte {
	var code []byte
	code = vfPush32(code, c)
	code = vfPush32(code, b)
	code = vfPush32(code, a)
	code = append(code, byte(op))
	code = append(code, byte(PUSH1), 0, byte(MSTORE), byte(PUSH1), 32, byte(PUSH1), 0, byte(RETURN))
	return code
}

func vfWord(b []byte) (w [32]byte) {
	copy(w[:], b)
	return
}

// vfNewState: an empty real AccountDB over an in-memory store.
func vfNewState() *account.AccountDB {
	mem, _ := db.NewMemDatabase()
	st, err := account.NewAccountDB(common.Hash{}, account.NewDatabase(mem))
	if err != nil {
		panic(err)
	}
	return st
}

// vfNewEVMState: EVM whose StateDB and Rangers account handle are the same real AccountDB.
func vfNewEVMState(height uint64, st *account.AccountDB) *EVM {
	vfInit(height)
	ctx := Context{BlockNumber: new(big.Int).SetUint64(height), Time: new(big.Int), Difficulty: new(big.Int), GasPrice: new(big.Int), GasLimit: 1 << 62,
		CanTransfer: CanTransfer, Transfer: Transfer, GetHash: func(uint64) common.Hash { return common.Hash{} }}
	return NewEVMWithNFT(ctx, st, st)
}
