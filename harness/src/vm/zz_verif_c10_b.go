package vm

import (
	"bytes"
	"math/big"

	symx "com.tuntun.rangers/node/src/zz_symx"
	"github.com/holiman/uint256"
)

// memory opcodes: MSTORE / MSTORE8 / MLOAD / MSIZE at a small symbolic offset
func VerifC10_Memory() {
	v := vfWord(symx.Bytes("v", 32))
	off := symx.U8("off")
	symx.Assume(off < 70)
	evm := vfNewEVM(1<<40, nil)
	var code []byte
	code = vfPush32(code, v)
	code = append(code, byte(PUSH1), off, byte(MSTORE)) // mem[off..off+32) = v
	code = append(code, byte(PUSH1), 0xAB, byte(PUSH1), off+5, byte(MSTORE8))
	code = append(code, byte(PUSH1), off, byte(MLOAD)) // stack: word at off
	code = append(code, byte(MSIZE))
	// return: store msize at 0x100, loaded word at 0x120; return [0x100, 0x140)
	code = append(code, byte(PUSH2), 1, 0, byte(MSTORE), byte(PUSH2), 1, 0x20, byte(MSTORE), byte(PUSH1), 0x40, byte(PUSH2), 1, 0, byte(RETURN))
	ret, _, err := vfRun(evm, code, nil, 1<<30)
	symx.Check(err == nil, "program runs")
	symx.Check(len(ret) == 64, "returns two words")
	if len(ret) == 64 {
		want := v
		want[5] = 0xAB
		symx.Check(bytes.Equal(ret[32:], want[:]), "MLOAD returns what MSTORE/MSTORE8 wrote")
		// msize = round up (off+32) to words
		words := (uint64(off) + 32 + 31) / 32
		symx.Check(symx.WEqual(vfWord(ret[:32]), symx.WFromU64(words*32)), "MSIZE is the word-rounded highest touched offset")
	}
	symx.Reach("end")
}

// PUSHn with data truncated by the end of code is right-padded with zeros; DUPn / SWAPn move the right items.
func VerifC10_PushDupSwap() {
	n := 1 + symx.Choice("n", 32)     // PUSH1..PUSH32
	avail := symx.Choice("avail", 33) // bytes of push data actually present in code
	data := symx.Bytes("d", 32)
	evm := vfNewEVM(1<<40, nil)
	// (a) truncated push as last instruction: run PUSHn with avail bytes, then nothing (implicit STOP)
	if avail <= n {
		code := append([]byte{byte(PUSH1) + byte(n-1)}, data[:avail]...)
		_, _, err := vfRun(evm, code, nil, 1<<30)
		symx.Check(err == nil, "truncated push halts normally")
	}
	// (b) full push followed by return of the word
	var code []byte
	code = append(code, byte(PUSH1)+byte(n-1))
	code = append(code, data[:n]...)
	code = append(code, byte(PUSH1), 0, byte(MSTORE), byte(PUSH1), 32, byte(PUSH1), 0, byte(RETURN))
	ret, _, err := vfRun(evm, code, nil, 1<<30)
	symx.Check(err == nil, "program runs")
	if len(ret) == 32 {
		var want symx.W
		copy(want[32-n:], data[:n])
		symx.Check(bytes.Equal(ret, want[:]), "PUSHn pushes its n bytes as a big-endian word")
	}
	symx.Reach("end")
}

func VerifC10_DupSwap() {
	k := 1 + symx.Choice("k", 16) // DUPk / SWAPk
	isSwap := symx.Choice("swap", 2) == 1
	evm := vfNewEVM(1<<40, nil)
	var code []byte
	// push 17 distinct items: item i has value i+1 in the low byte plus one symbolic byte
	x := symx.U8("x")
	for i := 0; i < 17; i++ {
		code = append(code, byte(PUSH2), x, byte(i+1))
	}
	// stack top is item 17 (index 16)
	if isSwap {
		code = append(code, byte(SWAP1)+byte(k-1))
	} else {
		code = append(code, byte(DUP1)+byte(k-1))
	}
	// return top two words
	code = append(code, byte(PUSH1), 0, byte(MSTORE), byte(PUSH1), 32, byte(MSTORE), byte(PUSH1), 64, byte(PUSH1), 0, byte(RETURN))
	ret, _, err := vfRun(evm, code, nil, 1<<30)
	symx.Check(err == nil, "program runs")
	symx.Check(len(ret) == 64, "returns two words")
	if len(ret) == 64 {
		top, second := ret[:32], ret[32:]
		if isSwap {
			// SWAPk exchanges top (item 17) with item 17-k
			symx.Check(top[31] == byte(17-k) && top[30] == x, "SWAPk brings the k+1-th item to the top")
			if k == 1 {
				symx.Check(second[31] == 17, "SWAP1 puts the old top second")
			} else {
				symx.Check(second[31] == 16, "SWAPk leaves the second item")
			}
		} else {
			// DUPk copies the k-th item (item 18-k) on top; old top is second
			symx.Check(top[31] == byte(18-k) && top[30] == x, "DUPk copies the k-th item")
			symx.Check(second[31] == 17, "DUPk keeps the old top below")
		}
	}
	symx.Reach("end")
}

// reference scanner for jump destinations
func c10RefJumpdest(code []byte, p int) bool {
	i := 0
	for i < len(code) {
		op := code[i]
		if i == p {
			return op == byte(JUMPDEST)
		}
		if op >= byte(PUSH1) && op <= byte(PUSH32) {
			i += int(op-byte(PUSH1)) + 2
		} else {
			i++
		}
	}
	return false
}

// jumps land only on JUMPDEST bytes outside push data: for every code string and position.
// The symbolic window (4 bytes, thorough 5) is placed behind 0..9 filler bytes and followed by
// three JUMPDEST bytes so that push data straddles the 8-byte words of the code bitmap.
func VerifC10_JumpdestBitmap() {
	n := 4
	if symx.Thorough() {
		n = 5
	}
	k := symx.Choice("fill", 10)
	var code []byte
	for i := 0; i < k; i++ {
		code = append(code, byte(STOP))
	}
	code = append(code, symx.Bytes("code", n)...)
	code = append(code, byte(JUMPDEST), byte(JUMPDEST), byte(JUMPDEST))
	p := symx.Choice("p", len(code)+1)
	c := NewContract(AccountRef(vfAddr), AccountRef(vfAddr), new(big.Int), 0)
	c.Code = code
	got := c.validJumpdest(new(uint256.Int).SetUint64(uint64(p)))
	symx.Check(got == c10RefJumpdest(code, p), "validJumpdest agrees with the reference scanner")
	symx.Reach("end")
}
