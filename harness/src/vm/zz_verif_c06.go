package vm

import (
	"math/big"

	"com.tuntun.rangers/node/src/common"
	crypto "com.tuntun.rangers/node/src/eth_crypto"
	"com.tuntun.rangers/node/src/storage/account"
	symx "com.tuntun.rangers/node/src/zz_symx"
)

func c06Sum(st *account.AccountDB, extra ...common.Address) *big.Int {
	s := new(big.Int)
	for _, a := range append([]common.Address{c12A, c12B, c12C, c12Orig}, extra...) {
		b := st.GetBalance(a)
		symx.Check(b.Sign() >= 0, "no balance is negative")
		s.Add(s, b)
	}
	return s
}

// EVM value transfers: a call with value into a contract that forwards value (CALL, CREATE,
// SELFDESTRUCT to another account or to itself) and then succeeds or fails never increases the sum
// of balances; it decreases only for SELFDESTRUCT naming the contract itself.
func VerifC06_EvmValueConservation() {
	mut := symx.Choice("mut", 6)
	end := symx.Choice("end", 3)
	val := []uint64{0, 1, 7, 6000}[symx.Choice("value", 4)] // 6000 exceeds the origin's balance
	var code []byte
	selfDestructToSelf := false
	switch mut {
	case 0: // nothing
	case 1: // CALL with value 3 to C
		code = c12Push(code, 0, 0, 0, 0, 3, 0xc3)
		code = append(code, byte(PUSH2), 0xff, 0xff, byte(CALL), byte(POP))
	case 2: // CALL with value 3 to itself
		code = c12Push(code, 0, 0, 0, 0, 3, 0xa1)
		code = append(code, byte(PUSH2), 0xff, 0xff, byte(CALL), byte(POP))
	case 3: // CREATE with value 2
		code = c12Push(code, 0, 0, 2)
		code = append(code, byte(CREATE), byte(POP))
	case 4: // SELFDESTRUCT to C
		code = c12Push(code, 0xc3)
		code = append(code, byte(SELFDESTRUCT))
	case 5: // SELFDESTRUCT naming itself
		code = c12Push(code, 0xa1)
		code = append(code, byte(SELFDESTRUCT))
		selfDestructToSelf = true
	}
	switch end {
	case 0:
		code = c12Push(code, 0, 0)
		code = append(code, byte(REVERT))
	case 1:
		code = append(code, byte(INVALID))
	case 2:
		code = append(code, byte(STOP))
	}
	st, evm, _ := c12Setup(code)
	created := common.Address{} // CREATE target is derived from (A, nonce): include whatever account appears
	before := c06Sum(st)
	_, _, _, err := evm.Call(AccountRef(c12Orig), c12A, nil, 1_000_000, new(big.Int).SetUint64(val))
	_ = created
	// the account CREATE made (if any) holds part of the sum: add it
	extra := []common.Address{}
	if mut == 3 {
		extra = append(extra, crypto.CreateAddress(c12A, 0), crypto.CreateAddress(c12A, 1))
	}
	after := c06Sum(st, extra...)
	if err == nil && selfDestructToSelf {
		symx.Check(after.Cmp(before) <= 0, "self-destruct naming itself can only burn value")
	} else {
		symx.Check(after.Cmp(before) == 0, "EVM value transfers only move value between accounts")
	}
	symx.Reach("end")
}
