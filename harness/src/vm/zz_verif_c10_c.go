package vm

import (
	"bytes"

	symx "com.tuntun.rangers/node/src/zz_symx"
)

// JUMP / JUMPI / PC: control transfers only to JUMPDEST outside push data, otherwise ErrInvalidJump.
func VerifC10_Jumps() {
	evm := vfNewEVM(1<<40, nil)
	dest := symx.U8("dest")
	cond := vfWord(symx.Bytes("cond", 32))
	useJumpi := symx.Choice("jumpi", 2) == 1
	// layout: [0] PUSH32 cond (33 bytes) [33] PUSH1 dest [35] JUMP/JUMPI [36] PUSH1 0x11 ... return ; [47] JUMPDEST PUSH1 0x22 ... return ; [58] PUSH1 0x5b (push data = JUMPDEST byte) STOP
	var code []byte
	code = vfPush32(code, cond)
	code = append(code, byte(PUSH1), dest)
	if useJumpi {
		code = append(code, byte(JUMPI))
	} else {
		code = append(code, byte(POP), byte(PUSH1), dest, byte(JUMP))
	}
	retWord := func(v byte) []byte {
		return []byte{byte(PUSH1), v, byte(PUSH1), 0, byte(MSTORE), byte(PUSH1), 32, byte(PUSH1), 0, byte(RETURN)}
	}
	fall := len(code)
	code = append(code, retWord(0x11)...)
	jd := len(code)
	code = append(code, byte(JUMPDEST))
	code = append(code, byte(PC), byte(PUSH1), 0, byte(MSTORE), byte(PUSH1), 32, byte(PUSH1), 0, byte(RETURN))
	pd := len(code) + 1
	code = append(code, byte(PUSH1), byte(JUMPDEST), byte(STOP))
	_ = fall
	ret, _, err := vfRun(evm, code, nil, 1<<30)
	taken := !useJumpi || cond != [32]byte{}
	if !taken {
		symx.Check(err == nil && len(ret) == 32 && ret[31] == 0x11, "JUMPI with zero condition falls through")
	} else if int(dest) == jd {
		symx.Check(err == nil && len(ret) == 32 && ret[31] == byte(jd+1), "jump to JUMPDEST continues there (PC reports position)")
	} else {
		symx.Check(err == ErrInvalidJump, "jump to anything but a JUMPDEST opcode fails with ErrInvalidJump")
	}
	if int(dest) == pd {
		symx.Reach("pushdata-target")
	}
	symx.Reach("end")
}

// CALLDATALOAD / CALLDATASIZE / CALLDATACOPY: zero padded reads of the input
func VerifC10_CallData() {
	evm := vfNewEVM(1<<40, nil)
	in := symx.BytesRange("in", 0, 6)
	off := symx.U8("off")
	symx.Assume(off < 12)
	var code []byte
	code = append(code, byte(PUSH1), off, byte(CALLDATALOAD), byte(PUSH1), 0, byte(MSTORE)) // mem[0..32) = calldataload(off)
	code = append(code, byte(CALLDATASIZE), byte(PUSH1), 32, byte(MSTORE))                  // mem[32..64) = size
	code = append(code, byte(PUSH1), 8, byte(PUSH1), off, byte(PUSH1), 64, byte(CALLDATACOPY)) // mem[64..72) = in[off..off+8)
	code = append(code, byte(PUSH1), 96, byte(PUSH1), 0, byte(RETURN))
	ret, _, err := vfRun(evm, code, in, 1<<30)
	symx.Check(err == nil, "program runs")
	symx.Check(len(ret) == 96, "returns three words")
	if len(ret) == 96 {
		var want [32]byte
		for i := 0; i < 32; i++ {
			if int(off)+i < len(in) {
				want[i] = in[int(off)+i]
			}
		}
		symx.Check(bytes.Equal(ret[:32], want[:]), "CALLDATALOAD reads 32 bytes zero padded")
		symx.Check(symx.WEqual(vfWord(ret[32:64]), symx.WFromU64(uint64(len(in)))), "CALLDATASIZE")
		symx.Check(bytes.Equal(ret[64:72], want[:8]), "CALLDATACOPY copies zero padded")
		symx.Check(bytes.Equal(ret[72:96], make([]byte, 24)), "CALLDATACOPY touches only its range")
	}
	symx.Reach("end")
}

// RETURN / REVERT select exactly memory[offset, offset+size)
func VerifC10_ReturnRevert() {
	evm := vfNewEVM(1<<40, nil)
	v := vfWord(symx.Bytes("v", 32))
	off := byte(symx.Choice("off", 40))
	size := byte(symx.Choice("size", 40))
	isRevert := symx.Choice("revert", 2) == 1
	var code []byte
	code = vfPush32(code, v)
	code = append(code, byte(PUSH1), 3, byte(MSTORE)) // mem[3..35) = v
	code = append(code, byte(PUSH1), size, byte(PUSH1), off)
	if isRevert {
		code = append(code, byte(REVERT))
	} else {
		code = append(code, byte(RETURN))
	}
	ret, _, err := vfRun(evm, code, nil, 1<<30)
	if isRevert {
		symx.Check(err == ErrExecutionReverted, "REVERT reports ErrExecutionReverted")
	} else {
		symx.Check(err == nil, "RETURN succeeds")
	}
	symx.Check(len(ret) == int(size), "returned data has the requested size")
	if len(ret) == int(size) {
		ok := true
		for i := 0; i < len(ret); i++ {
			p := int(off) + i
			var want byte
			if p >= 3 && p < 35 {
				want = v[p-3]
			}
			ok = symx.And(ok, ret[i] == want)
		}
		symx.Check(ok, "returned data equals the memory window")
	}
	symx.Reach("end")
}

// CALLDATALOAD / CALLDATACOPY / CODECOPY with a full 256-bit symbolic source offset: the bytes
// delivered are source[offset+i] where that index (computed without wrap-around in 256 bits)
// lies inside the source, and zero otherwise -- in particular for every offset >= 2^64.
func VerifC10_CopyWideOffset() {
	evm := vfNewEVM(1<<40, nil)
	offB := symx.Bytes("off", 32)
	in := symx.Bytes("in", 5)
	kind := symx.Choice("kind", 3)
	n := 8
	var code []byte
	switch kind {
	case 0: // CALLDATALOAD
		n = 32
		code = vfPush32(code, vfWord(offB))
		code = append(code, byte(CALLDATALOAD), byte(PUSH1), 0, byte(MSTORE))
	case 1:
		code = append(code, byte(PUSH1), 8)
		code = vfPush32(code, vfWord(offB))
		code = append(code, byte(PUSH1), 0, byte(CALLDATACOPY))
	case 2:
		code = append(code, byte(PUSH1), 8)
		code = vfPush32(code, vfWord(offB))
		code = append(code, byte(PUSH1), 0, byte(CODECOPY))
	}
	code = append(code, byte(PUSH1), 32, byte(PUSH1), 0, byte(RETURN))
	src := in
	if kind == 2 {
		src = code
	}
	ret, _, err := vfRun(evm, code, in, 1<<30)
	symx.Check(err == nil && len(ret) == 32, "program runs and returns one word")
	if err != nil || len(ret) != 32 {
		return
	}
	high := false
	for i := 0; i < 24; i++ {
		high = symx.Or(high, offB[i] != 0)
	}
	o := uint64(0)
	for i := 24; i < 32; i++ {
		o = o<<8 | uint64(offB[i])
	}
	ok := true
	for i := 0; i < 32; i++ {
		w := uint64(0)
		if i < n {
			for j := 0; j < len(src); j++ {
				if j < i {
					continue
				}
				c := symx.And(symx.Not(high), o == uint64(j-i))
				w = symx.IteU64(c, uint64(src[j]), w)
			}
		}
		ok = symx.And(ok, uint64(ret[i]) == w)
	}
	symx.Check(ok, "bytes delivered are the zero padded source at the 256-bit offset")
	symx.Reach("end")
}
