package vm

import (
	"math/big"

	"com.tuntun.rangers/node/src/middleware/types"
	symx "com.tuntun.rangers/node/src/zz_symx"
	"github.com/holiman/uint256"
)

// Stack-bound lemma, one inductive step: for every opcode of the jump table, executing the
// operation on a stack that the interpreter's validation admits (minStack <= len <= maxStack)
// changes the stack length by exactly 1024 - maxStack, so the result never exceeds 1024 items:
// the declared maxStack of every operation is consistent with what its execute function does.
func VerifC11_StackEffect() {
	symx.Option("maxconcretize", 300)
	st := vfNewState()
	evm := vfNewEVMState(1<<40, st)
	in := evm.interpreter.(*EVMInterpreter)
	opb := symx.U8("op")
	op := in.jumpTable[opb]
	if op == nil {
		symx.Reach("end")
		return
	}
	// a stack with exactly minStack small items (constants: the effect on the length does not depend on values)
	stack := newstack()
	for i := 0; i < op.minStack; i++ {
		stack.push(new(uint256.Int).SetUint64(uint64(i % 3)))
	}
	mem := NewMemory()
	mem.Resize(256)
	c := NewContract(AccountRef(vfAddr), AccountRef(vfAddr), new(big.Int), 1<<40)
	code := make([]byte, 40)
	code[0] = opb
	code[5] = byte(JUMPDEST)
	c.Code = code
	c.Input = []byte{1, 2, 3, 4}
	ctx := &callCtx{memory: mem, stack: stack, rstack: newReturnStack(), contract: c, logs: make([]*types.Log, 0)}
	before := stack.len()
	pc := uint64(0)
	_, err := op.execute(&pc, in, ctx)
	if err == nil {
		symx.Check(stack.len()-before == 1024-op.maxStack, "stack growth equals 1024 - maxStack (declared stack bound is exact)")
		symx.Check(op.minStack >= 0 && op.maxStack <= 1024+op.minStack, "declared bounds are sane")
	}
	symx.Reach("end")
}
