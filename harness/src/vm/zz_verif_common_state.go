package vm

import (
	"math/big"

	"com.tuntun.rangers/node/src/common"
	"com.tuntun.rangers/node/src/storage/account"
)

var (
	c12A    = common.Address{19: 0xa1} // contract under test
	c12B    = common.Address{19: 0xb2} // callee with empty code
	c12C    = common.Address{19: 0xc3} // beneficiary / fresh account
	c12Orig = common.Address{19: 0x0e}
	c12Key  = common.Hash{31: 1}
	c12Val  = common.Hash{31: 0x77}
)


func c12Setup(code []byte) (*account.AccountDB, *EVM, common.Hash) {
	st := vfNewState()
	evm := vfNewEVMState(1<<40, st)
	evm.Origin = c12Orig
	st.SetCode(c12A, code)
	st.SetBalance(c12A, big.NewInt(1000))
	st.SetBalance(c12Orig, big.NewInt(5000))
	st.SetState(c12A, c12Key, c12Val)
	st.IntermediateRoot(false)
	thash := common.Hash{0: 0x11}
	st.Prepare(thash, common.Hash{}, 0)
	return st, evm, thash
}

func c12Push(code []byte, vals ...byte) []byte {
	for _, v := range vals {
		code = append(code, byte(PUSH1), v)
	}
	return code
}

