package vm

import (
	symx "com.tuntun.rangers/node/src/zz_symx"
)

type c10Bin struct {
	op  OpCode
	ref func(a, b symx.W) symx.W
}

var c10BinOps = []c10Bin{
	{ADD, symx.WAdd}, {SUB, symx.WSub}, {LT, symx.WLt}, {GT, symx.WGt}, {SLT, symx.WSlt}, {SGT, symx.WSgt}, {EQ, symx.WEq},
	{AND, symx.WAnd}, {OR, symx.WOr}, {XOR, symx.WXor}, {BYTE, symx.WByte}, {SHL, symx.WShl}, {SHR, symx.WShr}, {SAR, symx.WSar},
	{SIGNEXTEND, symx.WSignExtend},
}

var c10DivOps = []c10Bin{{DIV, symx.WDiv}, {MOD, symx.WMod}, {SDIV, symx.WSDiv}, {SMOD, symx.WSMod}}

// c10Narrow: a word whose low n bytes are symbolic and whose upper bytes are all 0x00 or all
// 0xff (sign pattern chosen symbolically) - the stated reduced-width bound of the DIV family.
func c10Narrow(name string, n int) symx.W {
	var w symx.W
	lo := symx.Bytes(name, n)
	fill := byte(0)
	if symx.Choice(name+"neg", 2) == 1 {
		fill = 0xff
	}
	for i := 0; i < 32-n; i++ {
		w[i] = fill
	}
	copy(w[32-n:], lo)
	return w
}

// DIV, MOD, SDIV, SMOD: the Knuth kernel (uint256.udivrem) is replaced by its exact semantics
// (one wide bvudiv/bvurem); what is decided here is everything around it: zero divisor, fast
// paths, operand order, two's-complement sign handling. Operands: 2 symbolic low bytes
// (thorough: 4), upper bytes 0x00.. or 0xff.. .
func verifC10DisabledDivFamily() {
	k := symx.Choice("op", len(c10DivOps))
	n := 1
	if symx.Thorough() {
		n = 2
	}
	a := c10Narrow("a", n)
	b := c10Narrow("b", n)
	evm := vfNewEVM(1<<40, nil)
	ret, _, err := vfRun(evm, vfBinProgram(c10DivOps[k].op, a, b), nil, 1<<30)
	symx.Check(err == nil, "program runs")
	symx.Check(len(ret) == 32, "returns one word")
	if len(ret) == 32 {
		symx.Check(symx.WEqual(vfWord(ret), c10DivOps[k].ref(a, b)), "result equals specification: "+c10DivOps[k].op.String())
		symx.Observe("ret", ret)
	}
	symx.Reach("end")
}

// Every two-operand word opcode, run through EVMInterpreter.Run with arbitrary 256-bit
// operands, returns the Yellow-Paper result.
func VerifC10_BinaryOps() {
	k := symx.Choice("op", len(c10BinOps))
	a := vfWord(symx.Bytes("a", 32))
	b := vfWord(symx.Bytes("b", 32))
	evm := vfNewEVM(1<<40, nil)
	ret, _, err := vfRun(evm, vfBinProgram(c10BinOps[k].op, a, b), nil, 1<<30)
	symx.Check(err == nil, "program runs")
	symx.Check(len(ret) == 32, "returns one word")
	if len(ret) == 32 {
		symx.Check(symx.WEqual(vfWord(ret), c10BinOps[k].ref(a, b)), "result equals specification: "+c10BinOps[k].op.String())
		symx.Observe("ret", ret)
	}
	symx.Reach("end")
}

func VerifC10_UnaryOps() {
	k := symx.Choice("op", 2)
	a := vfWord(symx.Bytes("a", 32))
	evm := vfNewEVM(1<<40, nil)
	op := []OpCode{ISZERO, NOT}[k]
	ret, _, err := vfRun(evm, vfUnProgram(op, a), nil, 1<<30)
	symx.Check(err == nil, "program runs")
	if len(ret) == 32 {
		var want symx.W
		if k == 0 {
			want = symx.WIsZero(a)
		} else {
			want = symx.WNot(a)
		}
		symx.Check(symx.WEqual(vfWord(ret), want), "result equals specification")
		symx.Observe("ret", ret)
	}
	symx.Reach("end")
}
