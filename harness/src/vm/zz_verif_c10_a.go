package vm

import (
	symx "com.tuntun.rangers/node/src/zz_symx"
)

type c10Bin struct {
	op  OpCode
	ref func(a, b symx.W) symx.W
}

var c10BinOps = []c10Bin{
	{ADD, symx.WAdd}, {SUB, symx.WSub}, {LT, symx.WLt}, {GT, symx.WGt}, {SLT, symx.WSlt}, {SGT, symx.WSgt}, {EQ, symx.WEq},
	{AND, symx.WAnd}, {OR, symx.WOr}, {XOR, symx.WXor}, {BYTE, symx.WByte}, {SHL, symx.WShl}, {SHR, symx.WShr}, {SAR, symx.WSar},
	{SIGNEXTEND, symx.WSignExtend},
	// heavy kernels of holiman/uint256 (Mul, Div, Mod, SDiv, SMod, Exp) are replaced by their exact
	// 256-bit semantics: what is decided for these is the opcode glue (operand order, zero cases)
	{MUL, symx.WMul}, {DIV, symx.WDiv}, {MOD, symx.WMod}, {SDIV, symx.WSDiv}, {SMOD, symx.WSMod}, {EXP, symx.WExp},
}

// Every two-operand word opcode, run through EVMInterpreter.Run with arbitrary 256-bit
// operands, returns the Yellow-Paper result.
func VerifC10_BinaryOps() {
	k := symx.Choice("op", len(c10BinOps))
	a := vfWord(symx.Bytes("a", 32))
	b := vfWord(symx.Bytes("b", 32))
	evm := vfNewEVM(1<<40, nil)
	ret, _, err := vfRun(evm, vfBinProgram(c10BinOps[k].op, a, b), nil, 1<<30)
	symx.Check(err == nil, "program runs")
	symx.Check(len(ret) == 32, "returns one word")
	if len(ret) == 32 {
		symx.Check(symx.WEqual(vfWord(ret), c10BinOps[k].ref(a, b)), "result equals specification: "+c10BinOps[k].op.String())
		symx.Observe("ret", ret)
	}
	symx.Reach("end")
}

func VerifC10_UnaryOps() {
	k := symx.Choice("op", 2)
	a := vfWord(symx.Bytes("a", 32))
	evm := vfNewEVM(1<<40, nil)
	op := []OpCode{ISZERO, NOT}[k]
	ret, _, err := vfRun(evm, vfUnProgram(op, a), nil, 1<<30)
	symx.Check(err == nil, "program runs")
	if len(ret) == 32 {
		var want symx.W
		if k == 0 {
			want = symx.WIsZero(a)
		} else {
			want = symx.WNot(a)
		}
		symx.Check(symx.WEqual(vfWord(ret), want), "result equals specification")
		symx.Observe("ret", ret)
	}
	symx.Reach("end")
}


func VerifC10_TernaryOps() {
	k := symx.Choice("op", 2)
	a := vfWord(symx.Bytes("a", 32))
	b := vfWord(symx.Bytes("b", 32))
	m := vfWord(symx.Bytes("m", 32))
	evm := vfNewEVM(1<<40, nil)
	op := []OpCode{ADDMOD, MULMOD}[k]
	ret, _, err := vfRun(evm, vfTerProgram(op, a, b, m), nil, 1<<30)
	symx.Check(err == nil, "program runs")
	if len(ret) == 32 {
		var want symx.W
		if k == 0 {
			want = symx.WAddMod(a, b, m)
		} else {
			want = symx.WMulMod(a, b, m)
		}
		symx.Check(symx.WEqual(vfWord(ret), want), "result equals specification: "+op.String())
		symx.Observe("ret", ret)
	}
	symx.Reach("end")
}
