package ed25519

import (
	"bytes"
	"math/big"

	symx "com.tuntun.rangers/node/src/zz_symx"
)

// Header transport: a proof is carried as the header's big-integer prove value (which drops
// leading zero bytes) and restored with tryZeroPadding: for every 80-byte proof the restored
// bytes are the original ones, and the decoder slices the same three fields.
func VerifC16_TransportRoundTrip() {
	pi := symx.Bytes("pi", ProveSize)
	carried := new(big.Int).SetBytes(pi).Bytes() // what BlockHeader.ProveValue.Bytes() yields
	back := tryZeroPadding(carried)
	symx.Check(len(back) == ProveSize, "padding restores the proof length")
	symx.Check(bytes.Equal(back, pi), "padding restores the proof bytes (leading zero bytes included)")
	symx.Reach("end")
}

// proofs of any length 0..96: after padding the verifier's three fixed slices are in range
// (decodeProof itself decompresses a curve point: field arithmetic, outside SMT reach)
func VerifC16_PaddingTotal() {
	n := symx.Choice("len", 97)
	pi := symx.Bytes("pi", n)
	padded := tryZeroPadding(pi)
	symx.Check(len(padded) >= ProveSize, "padded proof has at least the proof size")
	_ = padded[:32]
	_ = padded[32:48]
	_ = padded[48:80]
	if n <= ProveSize {
		symx.Check(bytes.Equal(padded[ProveSize-n:], pi), "padding keeps the proof bytes at the end")
	}
	symx.Reach("end")
}
