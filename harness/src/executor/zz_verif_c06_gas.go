package executor

import (
	"math/big"
	"time"

	"com.tuntun.rangers/node/src/common"
	"com.tuntun.rangers/node/src/middleware/db"
	"com.tuntun.rangers/node/src/middleware/log"
	"com.tuntun.rangers/node/src/middleware/types"
	"com.tuntun.rangers/node/src/service"
	"com.tuntun.rangers/node/src/storage/account"
	"com.tuntun.rangers/node/src/vm"
	symx "com.tuntun.rangers/node/src/zz_symx"
)

var veInitDone bool

type veChain struct{}

func (veChain) GetBlockHash(height uint64) common.Hash { return common.Hash{} }

var (
	veSrc  = common.Address{19: 0x5c}
	veCtr  = common.Address{19: 0xa1}
	veThird = common.Address{19: 0xc3}
)

// Gas-fee settlement of a contract transaction (contractExecutor.Execute after preCheckContractFee):
// whatever the called code does (stop, revert, burn all gas, forward the value, self-destruct),
// the sum over sender, contract, third account and fee account is unchanged, no balance is
// negative, and the fee account receives exactly gasUsed * price, which the sender pays.
func VerifC06_GasSettlement() {
	if !veInitDone {
		common.Init(0, "verif.ini", "mainnet")
		account.Init()
		vm.InitVM()
		service.InitMinerManager()
		service.InitRefundManager(nil, nil)
		logger = log.GetLoggerByIndex(log.CoreLogConfig, "0")
		veInitDone = true
	}
	common.SetBlockHeight(1 << 40)
	mem, _ := db.NewMemDatabase()
	st, err := account.NewAccountDB(common.Hash{}, account.NewDatabase(mem))
	if err != nil {
		panic(err)
	}
	var code []byte
	switch symx.Choice("code", 5) {
	case 0:
		code = []byte{byte(vm.STOP)}
	case 1:
		code = []byte{byte(vm.PUSH1), 0, byte(vm.PUSH1), 0, byte(vm.REVERT)}
	case 2:
		code = []byte{byte(vm.INVALID)}
	case 3: // forward 5 units to the third account
		code = []byte{byte(vm.PUSH1), 0, byte(vm.PUSH1), 0, byte(vm.PUSH1), 0, byte(vm.PUSH1), 0, byte(vm.PUSH1), 5, byte(vm.PUSH1), 0xc3, byte(vm.PUSH2), 0xff, 0xff, byte(vm.CALL), byte(vm.STOP)}
	case 4: // self-destruct to the sender
		code = []byte{byte(vm.PUSH1), 0x5c, byte(vm.SELFDESTRUCT)}
	}
	st.SetCode(veCtr, code)
	st.SetBalance(veCtr, big.NewInt(100))
	gasLimit := []uint64{21000, 100000, 40000000}[symx.Choice("gaslimit", 3)]
	value := big.NewInt([]int64{0, 7}[symx.Choice("value", 2)])
	need := new(big.Int).Add(new(big.Int).Mul(new(big.Int).SetUint64(gasLimit), defaultGasPrice), value)
	// sender balance: exactly what the pre-check demands, or one unit less (rejected), or ample
	bal := new(big.Int).Add(need, big.NewInt([]int64{0, -1, 1000000}[symx.Choice("bal", 3)]))
	st.SetBalance(veSrc, bal)
	st.IntermediateRoot(false)
	tx := &types.Transaction{Source: veSrc.GetHexString(), Target: veCtr.GetHexString(), Type: types.TransactionTypeContract}
	raw := &ContractRawData{GasLimit: gasLimit, TransferValue: value, AbiData: nil}
	sum := func() *big.Int {
		t := new(big.Int)
		for _, a := range []common.Address{veSrc, veCtr, veThird, common.FeeAccount} {
			b := st.GetBalance(a)
			symx.Check(b.Sign() >= 0, "no balance is negative")
			t.Add(t, b)
		}
		return t
	}
	before := sum()
	feeBefore := st.GetBalance(common.FeeAccount)
	if preCheckContractFee(tx, st, *raw) != nil {
		symx.Check(bal.Cmp(need) < 0, "the pre-check rejects only senders that cannot pay gas limit * price + value")
		symx.Reach("rejected")
		return
	}
	ctx := map[string]interface{}{"contractData": raw, "chain": veChain{}}
	header := &types.BlockHeader{Height: 1 << 40, CurTime: time.Unix(1700000000, 0), Castor: []byte{1}}
	ex := &contractExecutor{logger: logger}
	snapshot := st.Snapshot()
	ok, _ := ex.Execute(tx, header, st, ctx)
	_ = snapshot
	after := sum()
	symx.Check(after.Cmp(before) == 0, "gas settlement conserves the sum over sender, contract, third account and fee account")
	gasUsed, _ := ctx["gasUsed"].(uint64)
	feeDelta := new(big.Int).Sub(st.GetBalance(common.FeeAccount), feeBefore)
	symx.Check(feeDelta.Cmp(new(big.Int).Mul(new(big.Int).SetUint64(gasUsed), defaultGasPrice)) == 0, "the fee account receives exactly gasUsed * price")
	symx.Check(gasUsed <= gasLimit, "gas used never exceeds the limit paid for")
	if ok {
		symx.Reach("success")
	}
	symx.Reach("end")
}
