package core

import (
	"math/big"

	"com.tuntun.rangers/node/src/common"
	"com.tuntun.rangers/node/src/middleware"
	"com.tuntun.rangers/node/src/middleware/db"
	"com.tuntun.rangers/node/src/middleware/types"
	"com.tuntun.rangers/node/src/service"
	"com.tuntun.rangers/node/src/storage/account"
	symx "com.tuntun.rangers/node/src/zz_symx"
	lru "github.com/hashicorp/golang-lru"
	"github.com/syndtr/goleveldb/leveldb/iterator"
)

// ---- physical stores: in-memory maps that record every write in one global sequence

type c05Write struct {
	store int
	del   bool
	kv    [][2][]byte // one entry for a put/delete, several for an atomic batch
}

type c05World struct {
	mem     [4]*db.MemDatabase // 0 hash, 1 height, 2 verify hash, 3 state
	log     []c05Write
	logging bool
}

type c05Store struct {
	w *c05World
	i int
}

type c05Batch struct {
	s    *c05Store
	kv   [][2][]byte
	size int
}

func (s *c05Store) Put(k, v []byte) error {
	if s.w.logging {
		s.w.log = append(s.w.log, c05Write{store: s.i, kv: [][2][]byte{{common.CopyBytes(k), common.CopyBytes(v)}}})
	}
	return s.w.mem[s.i].Put(k, v)
}
func (s *c05Store) Delete(k []byte) error {
	if s.w.logging {
		s.w.log = append(s.w.log, c05Write{store: s.i, del: true, kv: [][2][]byte{{common.CopyBytes(k), nil}}})
	}
	return s.w.mem[s.i].Delete(k)
}
func (s *c05Store) Get(k []byte) ([]byte, error)                     { return s.w.mem[s.i].Get(k) }
func (s *c05Store) Has(k []byte) (bool, error)                       { return s.w.mem[s.i].Has(k) }
func (s *c05Store) Close()                                           {}
func (s *c05Store) NewBatch() db.Batch                               { return &c05Batch{s: s} }
func (s *c05Store) NewIterator() iterator.Iterator                   { return nil }
func (s *c05Store) NewIteratorWithPrefix(p []byte) iterator.Iterator { return nil }
func (b *c05Batch) ValueSize() int                                   { return b.size }
func (b *c05Batch) Reset()                                           { b.kv, b.size = nil, 0 }
func (b *c05Batch) Put(k, v []byte) error {
	b.kv = append(b.kv, [2][]byte{common.CopyBytes(k), common.CopyBytes(v)})
	b.size += len(v)
	return nil
}
func (b *c05Batch) Write() error {
	if b.s.w.logging {
		b.s.w.log = append(b.s.w.log, c05Write{store: b.s.i, kv: b.kv})
	}
	for _, e := range b.kv {
		b.s.w.mem[b.s.i].Put(e[0], e[1])
	}
	return nil
}

func newC05World() *c05World {
	w := &c05World{}
	for i := range w.mem {
		w.mem[i], _ = db.NewMemDatabase()
	}
	return w
}

func (w *c05World) clone() *c05World {
	n := newC05World()
	for i := range w.mem {
		for _, k := range w.mem[i].Keys() {
			v, _ := w.mem[i].Get(k)
			n.mem[i].Put(k, v)
		}
	}
	return n
}

func (w *c05World) apply(ops []c05Write) {
	for _, op := range ops {
		for _, e := range op.kv {
			if op.del {
				w.mem[op.store].Delete(e[0])
			} else {
				w.mem[op.store].Put(e[0], e[1])
			}
		}
	}
}

// ---- the chain over these stores

type c05Pool struct {
	service.TransactionPool
	executed map[common.Hash]bool // block hashes whose transactions are marked executed
}

func (p *c05Pool) MarkExecuted(h *types.BlockHeader, r types.Receipts, txs []*types.Transaction, ev []common.Hash) {
	p.executed[h.Hash] = true
}
func (p *c05Pool) UnMarkExecuted(b *types.Block)                        { delete(p.executed, b.Header.Hash) }
func (p *c05Pool) GetExecuted(common.Hash) *service.ExecutedTransaction { return nil }

func c05Chain(w *c05World, pool *c05Pool) *blockChain {
	chain := &blockChain{transactionPool: pool}
	chain.topBlocks, _ = lru.New(100)
	chain.futureBlocks, _ = lru.New(10)
	chain.verifiedBlocks, _ = lru.New(20)
	chain.verifiedBodyCache, _ = lru.New(10)
	chain.hashDB, chain.heightDB, chain.verifyHashDB = &c05Store{w, 0}, &c05Store{w, 1}, &c05Store{w, 2}
	middleware.VerifInitAccountDBManager(&c05Store{w, 3})
	blockChainImpl = chain
	return chain
}

// restart: what initBlockChain does over existing stores
func c05Restart(w *c05World, pool *c05Pool) *blockChain {
	chain := c05Chain(w, pool)
	chain.latestBlock = chain.QueryBlockHeaderByHeight([]byte(latestBlockKey), false)
	if chain.latestBlock == nil {
		symx.Check(false, "after restart a head block is recorded")
		return chain
	}
	chain.ensureChainConsistency()
	return chain
}

type c05Blk struct {
	b     *types.Block
	state *account.AccountDB
}

// a block on top of pre whose state differs from its parent's by one balance
func c05Make(chain *blockChain, pre *types.BlockHeader, name byte, qn uint64, pv uint64) *c05Blk {
	st, err := middleware.AccountDBManagerInstance.GetAccountDBByHash(pre.StateTree)
	if err != nil {
		panic(err)
	}
	st.SetBalance(common.Address{19: name}, big.NewInt(int64(name)))
	// executing the block leaves its post-state in the trie database's memory cache (not on disk)
	root, err := st.Commit(true)
	if err != nil {
		panic(err)
	}
	bh := &types.BlockHeader{Height: pre.Height + 1, PreHash: pre.Hash, TotalQN: pre.TotalQN + qn, ProveValue: new(big.Int).SetUint64(pv),
		StateTree: root, Castor: []byte{name}, GroupId: []byte{1}, RequestIds: map[string]uint64{}}
	bh.Hash = bh.GenHash()
	blk := &c05Blk{b: &types.Block{Header: bh}, state: st}
	return blk
}

func (k *c05Blk) deliver(chain *blockChain) types.AddBlockResult {
	// the block was cast / verified before: its post-state is in the verified-block cache
	chain.verifiedBlocks.Add(k.b.Header.Hash, &castingBlock{state: k.state, receipts: nil})
	return chain.addBlockOnChain(k.b)
}

// ---- the invariant

func c05Invariant(chain *blockChain, w *c05World, genesis *types.BlockHeader, what string) {
	head := chain.latestBlock
	symx.Check(head != nil, what+": a head block is recorded")
	if head == nil {
		return
	}
	rec := chain.QueryBlockHeaderByHeight([]byte(latestBlockKey), false)
	symx.Check(rec != nil && rec.Hash == head.Hash, what+": the recorded head is the head in memory")
	cur := head
	for steps := 0; steps < 6; steps++ {
		blk := chain.queryBlockByHash(cur.Hash)
		symx.Check(blk != nil && blk.Header.Hash == cur.Hash, what+": the hash index contains every block of the head's chain")
		byHeight := chain.QueryBlockHeaderByHeight(cur.Height, false)
		symx.Check(byHeight != nil && byHeight.Hash == cur.Hash, what+": the height index returns the block of the head's chain")
		if cur.Height == 0 {
			symx.Check(cur.Hash == genesis.Hash, what+": the head is linked to genesis")
			break
		}
		pre := chain.queryBlockHeaderByHash(cur.PreHash)
		symx.Check(pre != nil && pre.Height+1 == cur.Height, what+": parent links are intact")
		if pre == nil {
			return
		}
		cur = pre
	}
	for d := uint64(1); d <= 2; d++ {
		symx.Check(chain.QueryBlockHeaderByHeight(head.Height+d, false) == nil, what+": nothing above the head is indexed by height")
	}
	st, err := account.NewAccountDB(head.StateTree, account.NewDatabase(&c05Store{w, 3}))
	symx.Check(err == nil && st != nil, what+": the head's state root can be opened")
}

func c05Genesis(chain *blockChain) *types.BlockHeader {
	st, _ := middleware.AccountDBManagerInstance.GetAccountDBByHash(common.Hash{})
	st.SetBalance(common.Address{19: 0x99}, big.NewInt(7))
	root, _ := st.Commit(true)
	middleware.AccountDBManagerInstance.GetTrieDB().Commit(root, false)
	g := &types.BlockHeader{Height: 0, StateTree: root, ProveValue: big.NewInt(0), RequestIds: map[string]uint64{}}
	g.Hash = g.GenHash()
	blk := &types.Block{Header: g}
	bb, _ := types.MarshalBlock(blk)
	hb, _ := types.MarshalBlockHeader(g)
	chain.saveBlockByHash(g.Hash, bb)
	chain.saveBlockByHeight(0, hb)
	chain.updateLastBlock(st, blk, hb)
	return g
}

// chain weight order of the property: cumulative QN, then prove value, then hash, the latter two
// taken at the fork point (the first block of each branch above the common ancestor). In this
// tree every fork is at genesis, so the fork-point blocks are the height-1 blocks of the branches.
func c05NotLighter(n, o *types.BlockHeader, forkN, forkO *types.BlockHeader) bool {
	if n.Hash == o.Hash || n.PreHash == o.Hash || forkN == nil || forkO == nil || forkN.Hash == forkO.Hash {
		return n.TotalQN >= o.TotalQN // unchanged head or plain extension
	}
	if n.TotalQN != o.TotalQN {
		return n.TotalQN > o.TotalQN
	}
	if c := forkN.ProveValue.Cmp(forkO.ProveValue); c != 0 {
		return c > 0
	}
	return new(big.Int).SetBytes(forkN.Hash.Bytes()).Cmp(new(big.Int).SetBytes(forkO.Hash.Bytes())) >= 0
}

// the height-1 block of the branch a header belongs to (nil for genesis)
func c05ForkBlock(h *types.BlockHeader, a1, b1 *types.BlockHeader) *types.BlockHeader {
	switch {
	case h.Height == 0:
		return nil
	case h.Hash == a1.Hash || h.PreHash == a1.Hash:
		return a1
	case h.Hash == b1.Hash || h.PreHash == b1.Hash:
		return b1
	}
	return nil
}

// Blocks A1, B1 (siblings on genesis), A2 (on A1), B2 (on B1) with symbolic quality numbers and
// prove values are delivered in a symbolic order (3 deliveries); the last delivery is also cut
// after every physical store write and followed by a restart.
func c05Run(deliveries int, crash bool) {
	c19Setup()
	common.SetBlockHeight(1 << 40)
	w := newC05World()
	pool := &c05Pool{executed: map[common.Hash]bool{}}
	chain := c05Chain(w, pool)
	g := c05Genesis(chain)

	qn := func(n string) uint64 { v := uint64(symx.U8(n)); symx.Assume(v >= 1 && v <= 3); return v }
	pv := func(n string) uint64 { v := uint64(symx.U8(n)); symx.Assume(v <= 3); return v }
	a1 := c05Make(chain, g, 0xa1, qn("qnA1"), pv("pvA1"))
	b1 := c05Make(chain, g, 0xb1, qn("qnB1"), pv("pvB1"))
	a2 := c05Make(chain, a1.b.Header, 0xa2, qn("qnA2"), pv("pvA2"))
	b2 := c05Make(chain, b1.b.Header, 0xb2, qn("qnB2"), pv("pvB2"))
	all := []*c05Blk{a1, b1, a2, b2}

	delivered := map[int]bool{}
	for t := 0; t < deliveries; t++ {
		i := symx.Choice("deliver"+string(rune('0'+t)), len(all))
		// a block removed by a reorg is not delivered again here (its post-state left the cache)
		symx.Assume(!delivered[i])
		delivered[i] = true
		old := chain.latestBlock
		last := t == deliveries-1
		var before *c05World
		if last && crash {
			before = w.clone()
			w.log, w.logging = nil, true
		}
		all[i].deliver(chain)
		w.logging = false
		c05Invariant(chain, w, g, "after delivery")
		symx.Check(c05NotLighter(chain.latestBlock, old, c05ForkBlock(chain.latestBlock, a1.b.Header, b1.b.Header), c05ForkBlock(old, a1.b.Header, b1.b.Header)), "the head only moves to a chain that is not lighter (QN, then prove value, then hash at the fork point)")
		symx.Check(pool.executed[chain.latestBlock.Hash] || chain.latestBlock.Height == 0, "the head's transactions are marked executed")
		if last && crash {
			k := symx.Choice("cut", len(w.log)+1)
			before.apply(w.log[:k])
			pool2 := &c05Pool{executed: map[common.Hash]bool{}}
			chain2 := c05Restart(before, pool2)
			c05Invariant(chain2, before, g, "after crash and restart")
			h := chain2.latestBlock
			if h != nil {
				anc := chain2.queryBlockHeaderByHash(all[i].b.Header.PreHash)
				isAnc := anc != nil && h.Hash == anc.Hash
				symx.Check(h.Hash == old.Hash || h.Hash == chain.latestBlock.Hash || isAnc || h.Height < old.Height, "after a crash the head is the old head, the new head or an ancestor")
			}
		}
	}
	symx.Reach("end")
}

func VerifC05_Deliveries3()   { c05Run(3, false) }
func VerifC05_CrashInLast2()  { c05Run(2, true) }
func VerifC05T_CrashInLast3() { c05Run(3, true) }
