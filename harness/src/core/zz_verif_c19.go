package core

import (
	"bytes"
	"encoding/json"

	"com.tuntun.rangers/node/src/middleware/db"
	"com.tuntun.rangers/node/src/middleware/types"
	"com.tuntun.rangers/node/src/utility"
	symx "com.tuntun.rangers/node/src/zz_symx"
)

func c19Group(name byte, pre, parent *types.Group) *types.Group {
	g := &types.Group{Id: []byte{0x60, name}, PubKey: symx.Bytes("pk", 2)}
	g.Header = &types.GroupHeader{CreateHeight: symx.U64("ch"), Extends: string([]byte{name})}
	if pre != nil {
		g.Header.PreGroup = pre.Id
	}
	if parent != nil {
		g.Header.Parent = parent.Id
	}
	g.Header.Hash = g.Header.GenHash()
	return g
}

// what initGroupChain does over an existing store
func c19Restart(store db.Database) *groupChain {
	chain := &groupChain{groups: store}
	lastGroupId, _ := chain.groups.Get([]byte(lastGroupKey))
	symx.Check(lastGroupId != nil, "restart: a last group is recorded")
	var lastGroup *types.Group
	data, _ := chain.groups.Get(lastGroupId)
	err := json.Unmarshal(data, &lastGroup)
	symx.Check(err == nil && lastGroup != nil, "restart: the recorded last group can be loaded")
	count, _ := chain.groups.Get([]byte(groupCountKey))
	chain.count = utility.ByteToUInt64(count)
	chain.lastGroup = lastGroup
	groupChainImpl = chain
	return chain
}

// the invariant of the property, against the model list (genesis first)
func c19Check(chain *groupChain, want []*types.Group, where string) {
	symx.Check(chain.Count() == uint64(len(want)), where+": Count equals the length of the list")
	g := chain.LastGroup()
	for i := len(want) - 1; i >= 0; i-- {
		symx.Check(g != nil && bytes.Equal(g.Id, want[i].Id), where+": predecessor links lead from the last group to genesis")
		if g == nil {
			return
		}
		byH := chain.GetGroupByHeight(uint64(i))
		symx.Check(byH != nil && bytes.Equal(byH.Id, want[i].Id) && byH.GroupHeight == uint64(i), where+": height index returns the i-th group of the list")
		byId := chain.GetGroupById(want[i].Id)
		symx.Check(byId != nil && bytes.Equal(byId.Id, want[i].Id), where+": every listed group is retrievable by id")
		if i > 0 {
			g = chain.GetGroupById(g.Header.PreGroup)
		}
	}
	symx.Check(chain.GetGroupByHeight(uint64(len(want))) == nil, where+": nothing is indexed at height == count")
	symx.Check(chain.GetGroupByHeight(uint64(len(want))+1) == nil, where+": nothing is indexed at height == count+1")
}

// Histories of add / bad add / duplicate add / remove-last / restart over a fresh chain.
func VerifC19_Histories() {
	c19Setup()
	store, _ := db.NewMemDatabase()
	chain := &groupChain{groups: store}
	genesis := c19Group('0', nil, nil)
	symx.Check(chain.save(genesis) == nil, "genesis is saved")
	groupChainImpl = chain
	list := []*types.Group{genesis}
	n := 5
	if symx.Thorough() {
		n = 6
	}
	next := byte('a')
	for step := 0; step < n; step++ {
		last := list[len(list)-1]
		switch symx.Choice("op", 6) {
		case 0: // add the next group (parent = predecessor)
			g := c19Group(next, last, last)
			next++
			symx.Check(chain.AddGroup(g) == nil, "a correctly linked group is added")
			list = append(list, g)
		case 1: // add a group whose parent is the genesis group but predecessor the last group
			g := c19Group(next, last, genesis)
			next++
			symx.Check(chain.AddGroup(g) == nil, "a group with an older parent is added")
			list = append(list, g)
		case 2: // add with a wrong predecessor: rejected, nothing changes
			g := c19Group(next, genesis, genesis)
			next++
			if len(list) > 1 {
				symx.Check(chain.AddGroup(g) != nil, "a group not linked to the last group is rejected")
			} else {
				symx.Check(chain.AddGroup(g) == nil, "first group after genesis")
				list = append(list, g)
			}
		case 3: // add a duplicate of the last group: rejected
			symx.Check(chain.AddGroup(last) != nil, "a duplicate id is rejected")
		case 4: // remove the last group (fork switch)
			if len(list) > 1 {
				symx.Check(chain.remove(last), "the last group is removed")
				list = list[:len(list)-1]
			}
		case 5: // restart
			chain = c19Restart(store)
		}
		c19Check(chain, list, "after each operation")
	}
	chain = c19Restart(store)
	c19Check(chain, list, "after restart")
	symx.Reach("end")
}
