package core

import (
	"com.tuntun.rangers/node/src/common"
	"com.tuntun.rangers/node/src/middleware/log"
	"com.tuntun.rangers/node/src/middleware/mysql"
	"com.tuntun.rangers/node/src/middleware/notify"
	"com.tuntun.rangers/node/src/middleware/types"
)

type c19Helper struct {
	types.ConsensusHelper // only CheckGroup and VerifyHash are used
}

func (c19Helper) CheckGroup(g *types.Group) (bool, error) { return true, nil }
func (c19Helper) VerifyHash(b *types.Block) common.Hash   { return common.BytesToHash([]byte{0x7e}) }

var c19Init bool

func c19Setup() {
	if !c19Init {
		common.Init(0, "verif.ini", "mainnet")
		logger = log.GetLoggerByIndex(log.CoreLogConfig, "0")
		syncLogger = log.GetLoggerByIndex(log.SyncLogConfig, "0")
		mysql.InitMySql()
		notify.BUS = notify.NewBus()
		c19Init = true
	}
	consensusHelper = c19Helper{}
}
