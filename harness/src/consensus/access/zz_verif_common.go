package access

import "com.tuntun.rangers/node/src/consensus/model"

// VerifJoinedStorage builds a joined-group store that holds exactly the given group (cache only,
// no group chain behind it).
func VerifJoinedStorage(jg *model.JoinedGroupInfo) *JoinedGroupStorage {
	s := &JoinedGroupStorage{}
	s.initStore()
	s.cache.Add(jg.GroupID.GetHexString(), jg)
	return s
}
