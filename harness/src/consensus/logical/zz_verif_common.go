package logical

import "com.tuntun.rangers/node/src/common"

var c16Init bool

func c16Setup() {
	if !c16Init {
		common.Init(0, "verif.ini", "mainnet")
		InitConsensus()
		c16Init = true
	}
	common.SetBlockHeight(1 << 40)
}
