package logical

import (
	"bytes"
	"math/big"

	"com.tuntun.rangers/node/src/common"
	"com.tuntun.rangers/node/src/common/ed25519"
	"com.tuntun.rangers/node/src/consensus/model"
	"com.tuntun.rangers/node/src/consensus/vrf"
	symx "com.tuntun.rangers/node/src/zz_symx"
)

// the copy of tryZeroPadding used by the qualification rule
func VerifC16_TransportRoundTripLogical() {
	pi := symx.Bytes("pi", ed25519.ProveSize)
	carried := vrf.VRFProve(new(big.Int).SetBytes(pi).Bytes())
	back := tryZeroPadding(carried)
	symx.Check(bytes.Equal(back, pi), "padding restores the proof bytes (leading zero bytes included)")
	symx.Reach("end")
}

var c16Init bool

func c16Setup() {
	if !c16Init {
		common.Init(0, "verif.ini", "mainnet")
		InitConsensus()
		c16Init = true
	}
	common.SetBlockHeight(1 << 40)
}

// Qualification rule: for every 32-byte lottery value (symbolic) and each of the enumerated
// total-stake / working-miner / height combinations, validateProve does not panic, and whenever it
// accepts, the quality number lies between 1 and MaxQN.
func VerifC16_Qualification() {
	c16Setup()
	prove := make([]byte, ed25519.ProveSize)
	symx.Big("lottery", 256).FillBytes(prove[:32])
	totals := []uint64{1, 4, 5, 7, 100, 1 << 20, 1 << 40}
	workings := []uint64{0, 1, 7}
	if symx.Thorough() {
		totals = []uint64{1, 2, 3, 4, 5, 6, 7, 19, 20, 21, 99, 100, 101, 499, 500, 501, 1 << 20, 1<<40 - 1, 1 << 40, 1<<62 + 12345}
		workings = []uint64{0, 1, 2, 3, 7, 100, 1 << 20}
	}
	total := totals[symx.Choice("total", len(totals))]
	working := workings[symx.Choice("working", len(workings))]
	height := []uint64{1, 1 << 40}[symx.Choice("height", 2)]
	// every working proposer holds a positive stake, so the total is at least their number
	symx.Assume(working == 0 || total >= working)
	ok, qn := validateProve(prove, height, working, total)
	if ok {
		symx.Check(qn >= 1, "accepted proofs have a quality number of at least 1")
		symx.Check(qn <= uint64(model.Param.MaxQN), "accepted proofs have a quality number of at most MaxQN")
	}
	symx.Reach("end")
}
