package logical

import (
	"bytes"
	"math/big"

	"com.tuntun.rangers/node/src/common"
	"com.tuntun.rangers/node/src/common/ed25519"
	"com.tuntun.rangers/node/src/consensus/model"
	"com.tuntun.rangers/node/src/consensus/vrf"
	symx "com.tuntun.rangers/node/src/zz_symx"
)

// the copy of tryZeroPadding used by the qualification rule
func VerifC16_TransportRoundTripLogical() {
	pi := symx.Bytes("pi", ed25519.ProveSize)
	carried := vrf.VRFProve(new(big.Int).SetBytes(pi).Bytes())
	back := tryZeroPadding(carried)
	symx.Check(bytes.Equal(back, pi), "padding restores the proof bytes (leading zero bytes included)")
	symx.Reach("end")
}

// Qualification rule: for every 32-byte lottery value (symbolic) and each of the enumerated
// total-stake / working-miner / height combinations, validateProve does not panic, and whenever it
// accepts, the quality number lies between 1 and MaxQN.
func VerifC16_Qualification() {
	c16Setup()
	prove := make([]byte, ed25519.ProveSize)
	symx.Big("lottery", 256).FillBytes(prove[:32])
	totals := []uint64{1, 4, 5, 7, 100, 1 << 20, 1 << 40}
	workings := []uint64{0, 1, 7}
	if symx.Thorough() {
		totals = []uint64{1, 2, 3, 4, 5, 6, 7, 19, 20, 21, 99, 100, 101, 499, 500, 501, 1 << 20, 1<<40 - 1, 1 << 40, 1<<62 + 12345}
		workings = []uint64{0, 1, 2, 3, 7, 100, 1 << 20}
	}
	total := totals[symx.Choice("total", len(totals))]
	working := workings[symx.Choice("working", len(workings))]
	height := []uint64{1, 1 << 40}[symx.Choice("height", 2)]
	// every working proposer holds a positive stake, so the total is at least their number
	symx.Assume(working == 0 || total >= working)
	ok, qn := validateProve(prove, height, working, total)
	if ok {
		symx.Check(qn >= 1, "accepted proofs have a quality number of at least 1")
		symx.Check(qn <= uint64(model.Param.MaxQN), "accepted proofs have a quality number of at most MaxQN")
	}
	symx.Reach("end")
}

// The documented rule itself: a proof is accepted exactly when its value ratio is below the
// stake ratio, and qn = floor(ratio/step)+1 with step = min(stake ratio, 1)/MaxQN, evaluated in
// float64 (so the quotient may be off by a relative 2^-52) and capped at MaxQN. The reference
// below is an independent exact-rational transcription.
func VerifC16_QnRule() {
	c16Setup()
	prove := make([]byte, ed25519.ProveSize)
	v := symx.Big("lottery", 256)
	v.FillBytes(prove[:32])
	totals := []uint64{1, 2, 5, 10, 15, 100, 1 << 40}
	workings := []uint64{0, 1, 2, 7}
	total := totals[symx.Choice("total", len(totals))]
	working := workings[symx.Choice("working", len(workings))]
	height := []uint64{1, 1 << 40}[symx.Choice("height", 2)]
	symx.Assume(working == 0 || total >= working)
	ok, qn := validateProve(prove, height, working, total)

	difficulty := uint64(1)
	if working != 0 && height > common.LocalChainConfig.Proposal025Block+common.GetRewardBlocks() {
		difficulty = total / working
	}
	pp := total * uint64(model.Param.PotentialProposalIndex) / 100
	if pp < model.Param.PotentialProposal {
		pp = model.Param.PotentialProposal
	}
	if pp > model.Param.PotentialProposalMax {
		pp = model.Param.PotentialProposalMax
	}
	stake := new(big.Rat).SetFrac(new(big.Int).SetUint64(difficulty*pp), new(big.Int).SetUint64(total))
	all1 := new(big.Int).Sub(new(big.Int).Lsh(big.NewInt(1), 256), big.NewInt(1))
	ratio := new(big.Rat).SetFrac(v, all1)
	symx.Check(ok == (ratio.Cmp(stake) < 0), "accepted exactly when the value ratio is below the stake ratio")
	if ok {
		capped := stake
		if capped.Cmp(big.NewRat(1, 1)) > 0 {
			capped = big.NewRat(1, 1)
		}
		maxQN := int64(model.Param.MaxQN)
		r := new(big.Rat).Quo(ratio, new(big.Rat).Quo(capped, big.NewRat(maxQN, 1)))
		eps := new(big.Rat).SetFrac(big.NewInt(1), new(big.Int).Lsh(big.NewInt(1), 52))
		hi := new(big.Rat).Mul(r, new(big.Rat).Add(big.NewRat(1, 1), eps))
		lo := new(big.Rat).Mul(r, new(big.Rat).Sub(big.NewRat(1, 1), eps))
		q := new(big.Rat).SetInt(new(big.Int).SetUint64(qn))
		symx.Check(new(big.Rat).Sub(q, big.NewRat(1, 1)).Cmp(hi) <= 0, "qn - 1 is at most ratio/step")
		if qn < uint64(maxQN) {
			symx.Check(q.Cmp(lo) > 0, "qn exceeds ratio/step (unless capped at MaxQN)")
		}
	}
	symx.Reach("end")
}
