package logical

import (
	"math/big"
	"strconv"

	"com.tuntun.rangers/node/src/common"
	"com.tuntun.rangers/node/src/consensus/access"
	"com.tuntun.rangers/node/src/consensus/groupsig"
	"com.tuntun.rangers/node/src/consensus/logical/group_create"
	"com.tuntun.rangers/node/src/consensus/model"
	"com.tuntun.rangers/node/src/core"
	"com.tuntun.rangers/node/src/middleware/log"
	"com.tuntun.rangers/node/src/middleware/types"
	symx "com.tuntun.rangers/node/src/zz_symx"
)

type c15Chain struct{ core.BlockChain }

func (c15Chain) HasBlockByHash(common.Hash) bool { return false }

type c15World struct {
	n, k    int
	ids     []groupsig.ID
	sks     []groupsig.Seckey
	pks     []groupsig.Pubkey
	gpk     groupsig.Pubkey
	outID   groupsig.ID // not a member
	outSK   groupsig.Seckey
	r       *round1
	bh, pre *types.BlockHeader
}

var c15IDs = []string{
	"0x7a2f5d1c9b3e4f60718293a4b5c6d7e8f90a1b2c3d4e5f60718293a4b5c6d7e8",
	"0x1b4e6f8092a3b4c5d6e7f8091a2b3c4d5e6f708192a3b4c5d6e7f8091a2b3c4d",
	"0x00000000000000d6e7f8092a3b4c5d6e7f8091a2b3c4d5e6f708192a3b4c5d6e",
	"0x0d6081920a1b2c3d4e5f60718293a4b5c6d7e8f90a1b2c3d4e5f60718293a4b5",
	"0x4e7192a3b4c5d6e7f8091a2b3c4d5e6f708192a3b4c5d6e7f8091a2b3c4d5e6f",
	"0x5f82a3b4c5d6e7f8091a2b3c4d5e6f708192a3b4c5d6e7f8091a2b3c4d5e6f70",
}

// c15Setup builds a group of n members with concrete keys (dealer polynomials with fixed
// coefficients, shares computed by the real groupsig code), registers it as a joined group, and
// constructs the signing round for a proposed block exactly as round0 leaves it for round1.
func c15Setup(n int) *c15World {
	c16Setup()
	w := &c15World{n: n, k: model.Param.GetGroupK(n)}
	w.ids = make([]groupsig.ID, n)
	for i := range w.ids {
		w.ids[i].SetHexString(c15IDs[i])
	}
	w.outID.SetHexString(c15IDs[n])
	w.outSK = *groupsig.NewSeckeyFromBigInt(big.NewInt(987654321))
	polys := make([][]groupsig.Seckey, n)
	a0 := make([]groupsig.Pubkey, n)
	for d := 0; d < n; d++ {
		polys[d] = make([]groupsig.Seckey, w.k)
		for j := 0; j < w.k; j++ {
			polys[d][j] = *groupsig.NewSeckeyFromBigInt(big.NewInt(int64(1000003*(d+1) + 7919*(j+1))))
		}
		a0[d] = *groupsig.GeneratePubkey(polys[d][0])
	}
	w.gpk = *groupsig.AggregatePubkeys(a0)
	w.sks = make([]groupsig.Seckey, n)
	w.pks = make([]groupsig.Pubkey, n)
	for i := 0; i < n; i++ {
		shares := make([]groupsig.Seckey, n)
		for d := 0; d < n; d++ {
			shares[d] = *groupsig.ShareSeckey(polys[d], w.ids[i])
		}
		w.sks[i] = *groupsig.AggregateSeckeys(shares)
		w.pks[i] = *groupsig.GeneratePubkey(w.sks[i])
	}
	gid := groupsig.NewIDFromPubkey(w.gpk)
	jg := &model.JoinedGroupInfo{GroupID: *gid, GroupPK: w.gpk, SignSecKey: w.sks[0], MemberSignPubkeyMap: make(map[string]groupsig.Pubkey)}
	for i := 0; i < n; i++ {
		jg.AddMemberSignPK(w.ids[i], w.pks[i])
	}
	group_create.VerifSetJoinedStorage(access.VerifJoinedStorage(jg))

	w.pre = &types.BlockHeader{Height: 9, Random: []byte{0x52, 0x61, 0x6e, 0x64, 9}}
	w.bh = &types.BlockHeader{Height: 10, GroupId: gid.Serialize(), Hash: common.BytesToHash(symx.Bytes("blockhash", 32))}
	group := &model.GroupInfo{GroupID: *gid, GroupPK: w.gpk, GroupInitInfo: &model.GroupInitInfo{GroupHeader: &types.GroupHeader{}, GroupMembers: w.ids}}
	group.BuildMemberIndex()
	logger := log.GetLoggerByIndex(log.ConsensusLogConfig, "0")
	r0 := &round0{
		baseRound: &baseRound{processed: make(map[string]byte), futureMessages: make(map[string]model.ConsensusMessage), logger: logger, partyId: "verif", number: 1},
		mi:        w.ids[0], blockchain: c15Chain{}, bh: w.bh, preBH: w.pre, group: group,
	}
	w.r = &round1{round0: r0}
	if err := w.r.Start(); err != nil {
		symx.Check(false, "round1 starts")
	}
	return w
}

// c15Message is one verify message as a (possibly Byzantine) sender could craft it.
//
//	sender: members 0..n-1, n = a non-member
//	block share kinds: 0 honest; 1 correct signature over another hash h', filed with dataHash h';
//	  2 signature over h' but dataHash = block hash; 3 another member's honest share;
//	  4 bytes that are not a share (neutral element / unrelated point / malformed)
//	beacon share kinds (with an honest block share): 5 signature over other bytes; 6 another
//	  member's beacon share; 7 bytes that are not a share
func (w *c15World) c15Message(tag string) (*model.ConsensusVerifyMessage, int, int) {
	sender := symx.Choice(tag+".sender", w.n+1)
	kind := symx.Choice(tag+".kind", 9)
	id, sk := w.outID, w.outSK
	if sender < w.n {
		id, sk = w.ids[sender], w.sks[sender]
	}
	other := (sender + 1) % w.n
	bhash := w.bh.Hash
	dataHash, msgHash := bhash, bhash
	sig := groupsig.Sign(sk, bhash.Bytes())
	rsig := groupsig.Sign(sk, w.pre.Random)
	switch kind {
	case 1:
		dataHash = common.BytesToHash(symx.Bytes(tag+".h", 32))
		sig = groupsig.Sign(sk, dataHash.Bytes())
	case 2:
		sig = groupsig.Sign(sk, symx.Bytes(tag+".h", 32))
	case 3:
		sig = groupsig.Sign(w.sks[other], bhash.Bytes())
	case 4:
		sig = *groupsig.DeserializeSign(symx.Bytes(tag+".junk", 64))
	case 5:
		rsig = groupsig.Sign(sk, symx.Bytes(tag+".r", 5))
	case 6:
		rsig = groupsig.Sign(w.sks[other], w.pre.Random)
	case 7:
		rsig = *groupsig.DeserializeSign(symx.Bytes(tag+".junk", 64))
	case 8:
		// as kind 1, and the message itself names the other hash (it reaches this round through
		// the party's future-message queue, which is keyed before the party id changes)
		dataHash = common.BytesToHash(symx.Bytes(tag+".h", 32))
		sig = groupsig.Sign(sk, dataHash.Bytes())
		msgHash = dataHash
	}
	cvm := &model.ConsensusVerifyMessage{BlockHash: msgHash, RandomSign: rsig, Id: tag}
	cvm.SignInfo = model.MakeSignInfo(dataHash, sig, id, 0)
	return cvm, sender, kind
}

// every share in the two recovery sets is its sender's valid share for this block / the previous
// beacon value, and the sender is a member
func (w *c15World) c15CheckSets() {
	for key, sig := range w.r.gSignGenerator.witnessSignMap {
		pos := -1
		for i := range w.ids {
			if w.ids[i].GetHexString() == key {
				pos = i
			}
		}
		symx.Check(pos >= 0, "only members' shares are in the block-signature set")
		if pos >= 0 {
			symx.Check(groupsig.VerifySig(w.pks[pos], w.bh.Hash.Bytes(), sig), "a counted share is its sender's valid share for this block's hash")
		}
	}
	for key, sig := range w.r.rSignGenerator.witnessSignMap {
		pos := -1
		for i := range w.ids {
			if w.ids[i].GetHexString() == key {
				pos = i
			}
		}
		symx.Check(pos >= 0, "only members' shares are in the beacon set")
		if pos >= 0 {
			symx.Check(groupsig.VerifySig(w.pks[pos], w.pre.Random, sig), "a counted beacon share is its sender's valid share for the previous beacon value")
		}
	}
	symx.Check(len(w.r.gSignGenerator.witnessSignMap) == len(w.r.rSignGenerator.witnessSignMap) || w.r.gSignGenerator.SignRecovered(), "block and beacon sets grow together")
	if w.r.canProcessed {
		r2 := &round2{round1: w.r}
		symx.Check(r2.checkSignature(w.r.group) == nil, "once the threshold is reached the recovered block signature and beacon value verify under the group key")
	}
}

func c15Sequence(n, msgs int) {
	w := c15Setup(n)
	for t := 0; t < msgs; t++ {
		cvm, _, _ := w.c15Message("m" + strconv.Itoa(t))
		if err := w.r.Update(cvm); err != nil {
			symx.Check(false, "Update reports no round error for a verify message")
		}
		w.c15CheckSets()
	}
	symx.Reach("end")
}

func VerifC15_Filter3() { c15Sequence(3, 2) }

func VerifC15T_Filter3x3() { c15Sequence(3, 3) }
func VerifC15T_Filter5()   { c15Sequence(5, 3) }

// One faulty member sends first, then the threshold of honest members answers: the block must
// still become processable with valid recovered signatures.
func VerifC15_FaultyFirst() {
	n := 3
	w := c15Setup(n)
	cvm, sender, kind := w.c15Message("bad")
	symx.Assume(kind != 0)
	w.r.Update(cvm)
	w.c15CheckSets()
	cnt := 0
	for i := 0; i < n && cnt < w.k; i++ {
		if i == sender {
			continue
		}
		h := &model.ConsensusVerifyMessage{BlockHash: w.bh.Hash, RandomSign: groupsig.Sign(w.sks[i], w.pre.Random), Id: "h" + strconv.Itoa(i)}
		h.SignInfo = model.MakeSignInfo(w.bh.Hash, groupsig.Sign(w.sks[i], w.bh.Hash.Bytes()), w.ids[i], 0)
		w.r.Update(h)
		cnt++
	}
	w.c15CheckSets()
	symx.Check(w.r.canProcessed, "a single faulty member cannot prevent the block from finalising")
	symx.Reach("end")
}

// duplicates: the same member's share twice is counted once
func VerifC15_Duplicate() {
	w := c15Setup(3)
	mk := func(tag string) *model.ConsensusVerifyMessage {
		h := &model.ConsensusVerifyMessage{BlockHash: w.bh.Hash, RandomSign: groupsig.Sign(w.sks[1], w.pre.Random), Id: tag}
		h.SignInfo = model.MakeSignInfo(w.bh.Hash, groupsig.Sign(w.sks[1], w.bh.Hash.Bytes()), w.ids[1], 0)
		return h
	}
	w.r.Update(mk("a"))
	w.r.Update(mk("b"))
	symx.Check(len(w.r.gSignGenerator.witnessSignMap) == 1 && !w.r.canProcessed, "a duplicate share is counted once")
	w.c15CheckSets()
	symx.Reach("end")
}
