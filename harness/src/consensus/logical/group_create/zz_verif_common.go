package group_create

import "com.tuntun.rangers/node/src/consensus/access"

// VerifSetJoinedStorage injects the store GetMemberSignPubKey reads from.
func VerifSetJoinedStorage(s *access.JoinedGroupStorage) {
	GroupCreateProcessor.joinedGroupStorage = s
}
