package group_create

import (
	"strconv"

	"com.tuntun.rangers/node/src/common"
	"com.tuntun.rangers/node/src/consensus/groupsig"
	"com.tuntun.rangers/node/src/consensus/model"
	"com.tuntun.rangers/node/src/middleware/log"
	symx "com.tuntun.rangers/node/src/zz_symx"
)

var c13Init bool

func c13Setup() {
	if !c13Init {
		common.Init(0, "verif.ini", "mainnet")
		model.InitParam(common.GlobalConf.GetSectionManager("consensus"))
		groupCreateLogger = log.GetLoggerByIndex(log.GroupCreateLogConfig, strconv.Itoa(common.InstanceIndex))
		c13Init = true
	}
}

// member ids: ordinary 256-bit values, small values, a value above the group order, values with
// leading zero bytes (exercise the hex-string map key round trip of RecoverGroupSignature)
var c13IDs = [][]string{
	{
		"0x7a2f5d1c9b3e4f60718293a4b5c6d7e8f90a1b2c3d4e5f60718293a4b5c6d7e8",
		"0x1b4e6f8092a3b4c5d6e7f8091a2b3c4d5e6f708192a3b4c5d6e7f8091a2b3c4d",
		"0x2c5f7081a3b4c5d6e7f8092a3b4c5d6e7f8091a2b3c4d5e6f708192a3b4c5d6e",
		"0x0d6081920a1b2c3d4e5f60718293a4b5c6d7e8f90a1b2c3d4e5f60718293a4b5",
		"0x4e7192a3b4c5d6e7f8091a2b3c4d5e6f708192a3b4c5d6e7f8091a2b3c4d5e6f",
		"0x5f82a3b4c5d6e7f8091a2b3c4d5e6f708192a3b4c5d6e7f8091a2b3c4d5e6f70",
		"0x6093b4c5d6e7f8091a2b3c4d5e6f708192a3b4c5d6e7f8091a2b3c4d5e6f7081",
		"0x71a4c5d6e7f8091a2b3c4d5e6f708192a3b4c5d6e7f8091a2b3c4d5e6f708192",
		"0x82b5d6e7f8091a2b3c4d5e6f708192a3b4c5d6e7f8091a2b3c4d5e6f708192a3",
	},
	{
		"0x01", "0x02", "0x03", "0x04", "0x05", "0x06", "0x07", "0x08", "0x09",
	},
	{
		// above the group order; leading zero bytes; congruent modulo small numbers
		"0xfffffffffffffffffffffffffffffffffffffffffffffffffffffffffffffff1",
		"0x0000000000000000000000000000000000000000000000000000000000000a11",
		"0x30644e72e131a029b85045b68181585d2833e84879b9709143e1f593f0000002",
		"0x0000000000000000000000000000000100000000000000000000000000000001",
		"0x8000000000000000000000000000000000000000000000000000000000000000",
		"0x00ffffffffffffffffffffffffffffffffffffffffffffffffffffffffffffff",
		"0x30644e72e131a029b85045b68181585d2833e84879b9709143e1f593f0000000",
		"0x0000000000000000000000000000000000000000000000000000000000000010",
		"0x1000000000000000000000000000000000000000000000000000000000000000",
	},
}

func c13ID(set, i int) groupsig.ID {
	var id groupsig.ID
	id.SetHexString(c13IDs[set][i])
	return id
}

// c13Group runs the node's own key generation for a group of n members with arbitrary dealer
// secrets and returns the members' signing keys and the group public key (as seen by member 0).
func c13Group(n, set, symMember int) (ids []groupsig.ID, sks []groupsig.Seckey, gpks []groupsig.Pubkey, k int, master *groupsig.Seckey) {
	k = model.Param.GetGroupK(n)
	ids = make([]groupsig.ID, n)
	for i := range ids {
		ids[i] = c13ID(set, i)
	}
	// dealer d's polynomial: k arbitrary coefficients
	polys := make([][]groupsig.Seckey, n)
	a0 := make([]groupsig.Seckey, n)
	for d := 0; d < n; d++ {
		polys[d] = make([]groupsig.Seckey, k)
		for j := 0; j < k; j++ {
			polys[d][j] = *groupsig.NewSeckeyFromBigInt(symx.Big("a_"+strconv.Itoa(d)+"_"+strconv.Itoa(j), 256))
		}
		symx.Assume(polys[d][0].IsValid())
		a0[d] = polys[d][0]
	}
	master = groupsig.AggregateSeckeys(a0)
	sks = make([]groupsig.Seckey, n)
	gpks = make([]groupsig.Pubkey, n)
	for i := 0; i < n; i++ {
		node := &groupNodeInfo{groupMemberNum: n, receivedSharePiece: make(map[string]model.SharePiece)}
		res := 0
		// the aggregation loops range over a map: arbitrary order for the chosen member
		symx.SymbolicMapOrder(i == symMember)
		for d := 0; d < n; d++ {
			piece := model.SharePiece{Share: *groupsig.ShareSeckey(polys[d], ids[i]), Pub: *groupsig.GeneratePubkey(polys[d][0])}
			res = node.handleSharePiece(ids[d], &piece)
		}
		if res != 1 {
			// aggregateKeys refuses a zero signing key or an empty group key: an event of
			// probability 2^-254 for honest dealers, excluded
			symx.Assume(false)
		}
		sks[i] = node.getSignSecKey()
		gpks[i] = node.getGroupPubKey()
	}
	symx.SymbolicMapOrder(false)
	return
}

func c13Run(n, set, symMember int) {
	c13Setup()
	ids, sks, gpks, k, master := c13Group(n, set, symMember)
	symx.SymbolicMapOrder(true) // RecoverGroupSignature ranges over the share map
	msg := symx.Bytes("msg", 4)
	want := groupsig.Sign(*master, msg)

	// every member's share verifies under that member's public share, and the members agree on
	// the group key
	shares := make([]groupsig.Signature, n)
	for i := 0; i < n; i++ {
		shares[i] = groupsig.Sign(sks[i], msg)
		symx.Check(groupsig.VerifySig(*groupsig.GeneratePubkey(sks[i]), msg, shares[i]), "a member's share verifies under its public share")
		symx.Check(groupsig.VerifySig(gpks[i], msg, want), "every member derives the group public key of the dealers' summed secrets")
	}

	// shares arrive in an arbitrary order; the generator recovers as soon as k are present
	gen := model.NewGroupSignGenerator(k)
	used := make([]bool, n)
	done := false
	for t := 0; t < n && !done; t++ {
		c := symx.Choice("arrival"+strconv.Itoa(t), n-t)
		i := 0
		for ; i < n; i++ {
			if !used[i] {
				if c == 0 {
					break
				}
				c--
			}
		}
		used[i] = true
		add, generated := gen.AddWitnessSign(ids[i], shares[i])
		symx.Check(add, "a new member's share is added")
		symx.Check(generated == (t+1 >= k), "the signature is recovered exactly when the threshold is reached")
		done = generated
	}
	gsig := gen.GetGroupSign()
	symx.Check(gen.VerifyGroupSign(gpks[0], msg), "the recovered signature verifies under the group public key")
	symx.Check(gsig.IsEqual(want), "every threshold subset recovers the same signature")
	symx.Reach("end")
}

func VerifC13_Threshold3() {
	member := 0
	if symx.Thorough() {
		member = symx.Choice("member", 3)
	}
	c13Run(3, symx.Choice("ids", 3), member)
}
func VerifC13_Threshold4() { c13Run(4, symx.Choice("ids", 3), -1) }
func VerifC13_Threshold5() { c13Run(5, symx.Choice("ids", 3), -1) }

// thorough: larger groups
func VerifC13T_Threshold6() { c13Run(6, symx.Choice("ids", 3), -1) }
func VerifC13T_Threshold7() { c13Run(7, symx.Choice("ids", 3), -1) }

// The two aggregation loops of a member (over the received-share map) in every iteration order,
// one loop at a time, for a group of 4 (thorough: 5).
func VerifC13_AggregationOrder() {
	c13Setup()
	n := 4
	if symx.Thorough() {
		n = 5
	}
	set := symx.Choice("ids", 3)
	k := model.Param.GetGroupK(n)
	node := &groupNodeInfo{groupMemberNum: n, receivedSharePiece: make(map[string]model.SharePiece)}
	a0 := make([]groupsig.Seckey, n)
	shares := make([]groupsig.Seckey, n)
	for d := 0; d < n; d++ {
		poly := make([]groupsig.Seckey, k)
		for j := 0; j < k; j++ {
			poly[j] = *groupsig.NewSeckeyFromBigInt(symx.Big("a_"+strconv.Itoa(d)+"_"+strconv.Itoa(j), 256))
		}
		a0[d] = poly[0]
		shares[d] = *groupsig.ShareSeckey(poly, c13ID(set, 0))
		node.receivedSharePiece[c13ID(set, d).GetHexString()] = model.SharePiece{Share: shares[d], Pub: *groupsig.GeneratePubkey(poly[0])}
	}
	msg := symx.Bytes("msg", 4)
	if symx.Choice("loop", 2) == 0 {
		symx.SymbolicMapOrder(true)
		gpk := node.genGroupPubKey()
		symx.SymbolicMapOrder(false)
		symx.Check(groupsig.VerifySig(*gpk, msg, groupsig.Sign(*groupsig.AggregateSeckeys(a0), msg)), "group public key is the sum of the dealers' public keys in every order")
	} else {
		symx.SymbolicMapOrder(true)
		sk := node.genMinerSignSecKey()
		symx.SymbolicMapOrder(false)
		symx.Check(groupsig.VerifySig(*groupsig.GeneratePubkey(*groupsig.AggregateSeckeys(shares)), msg, groupsig.Sign(*sk, msg)), "member signing key is the sum of the received shares in every order")
	}
	symx.Reach("end")
}

// More than the threshold of shares present: RecoverGroupSignature picks a random k-subset.
func VerifC13_RecoverFromSuperset() {
	c13Setup()
	n := 4
	ids, sks, gpks, k, master := c13Group(n, symx.Choice("ids", 3), -1)
	symx.SymbolicMapOrder(true)
	msg := symx.Bytes("msg", 4)
	m := make(map[string]groupsig.Signature)
	for i := 0; i < n; i++ {
		m[ids[i].GetHexString()] = groupsig.Sign(sks[i], msg)
	}
	sig := groupsig.RecoverGroupSignature(m, k)
	symx.Check(sig != nil && groupsig.VerifySig(gpks[0], msg, *sig), "recovery from more than k shares verifies under the group key")
	symx.Check(sig.IsEqual(groupsig.Sign(*master, msg)), "recovery from more than k shares gives the same signature")
	symx.Reach("end")
}

// The threshold the node derives: ceil(51% of n), always a strict majority and at most n, for
// every group size 1..200 (the configured sizes are 5..10; enumerated, the rule is float64 code).
func VerifC13_ThresholdRule() {
	c13Setup()
	n := 1 + symx.Choice("n", 200)
	k := model.Param.GetGroupK(n)
	symx.Check(k >= 1 && k <= n, "threshold between 1 and the group size")
	symx.Check(2*k > n, "threshold is a strict majority")
	symx.Check(100*k >= 51*n && 100*(k-1) < 51*n, "threshold is the ceiling of 51 percent")
	symx.Reach("end")
}

// Same as Threshold3 with Go's own map order: its sampled paths are replayed natively against the
// real pairing library (translator validation of the group algebra).
func VerifC13_Plain3() {
	c13Setup()
	ids, sks, gpks, k, master := c13Group(3, symx.Choice("ids", 3), -1)
	msg := symx.Bytes("msg", 4)
	want := groupsig.Sign(*master, msg)
	gen := model.NewGroupSignGenerator(k)
	first := symx.Choice("first", 3)
	for t := 0; t < 3; t++ {
		i := (first + t) % 3
		share := groupsig.Sign(sks[i], msg)
		symx.Check(groupsig.VerifySig(*groupsig.GeneratePubkey(sks[i]), msg, share), "a member's share verifies under its public share")
		gen.AddWitnessSign(ids[i], share)
	}
	gsig := gen.GetGroupSign()
	symx.Check(gen.VerifyGroupSign(gpks[1], msg), "the recovered signature verifies under the group public key")
	symx.Check(gsig.IsEqual(want), "every threshold subset recovers the same signature")
	symx.Observe("valid", gsig.IsValid())
	symx.Reach("end")
}

// thorough: a group of 9 (threshold 5; the id tables hold 9 ids): every 5-subset, in increasing
// member order
func VerifC13T_Subsets9() {
	c13Setup()
	ids9, sks9, gpks9, k, master := c13Group(9, symx.Choice("ids", 3), -1)
	msg := symx.Bytes("msg", 4)
	gen := model.NewGroupSignGenerator(k)
	cnt := 0
	for i := 0; i < 9 && cnt < k; i++ {
		if 9-i > k-cnt && symx.Choice("skip"+strconv.Itoa(i), 2) == 1 {
			continue
		}
		gen.AddWitnessSign(ids9[i], groupsig.Sign(sks9[i], msg))
		cnt++
	}
	gsig := gen.GetGroupSign()
	symx.Check(gen.VerifyGroupSign(gpks9[0], msg), "the recovered signature verifies under the group public key")
	symx.Check(gsig.IsEqual(groupsig.Sign(*master, msg)), "every threshold subset recovers the same signature")
	symx.Reach("end")
}
