package service

import (
	"bytes"
	"encoding/hex"
	"math/big"
	"strings"

	"com.tuntun.rangers/node/src/common"
	crypto "com.tuntun.rangers/node/src/eth_crypto"
	"com.tuntun.rangers/node/src/eth_tx"
	"com.tuntun.rangers/node/src/middleware/types"
	"com.tuntun.rangers/node/src/storage/rlp"
	symx "com.tuntun.rangers/node/src/zz_symx"
)

// an honestly signed EIP-155 transaction for this chain, wrapped as the gateway wraps it
func c07EthHonest(height uint64, chainId *big.Int) (*types.Transaction, []byte) {
	return c07EthHonestN(height, chainId, symx.Choice("nonce", len(c07Nonces)), symx.Choice("amount", 3), symx.Choice("gas", 2))
}

func c07EthHonestN(height uint64, chainId *big.Int, nonceIx, amountIx, gasIx int) (*types.Transaction, []byte) {
	return c07EthHonestC(height, chainId, nonceIx, amountIx, gasIx, symx.Bytes("to", 20), symx.Bytes("payload", 3))
}

func c07EthHonestC(height uint64, chainId *big.Int, nonceIx, amountIx, gasIx int, toBytes, payload []byte) (*types.Transaction, []byte) {
	prv, err := crypto.HexToECDSA(c07KeyA[2:])
	if err != nil {
		panic(err)
	}
	var to common.Address
	copy(to[:], toBytes)
	nonce := c07Nonces[nonceIx]
	amount := []*big.Int{big.NewInt(0), big.NewInt(1), new(big.Int).Exp(big.NewInt(10), big.NewInt(18), nil)}[amountIx]
	raw := eth_tx.NewTransaction(nonce, to, amount, 21000+uint64(gasIx)*1000000, big.NewInt(1000000000), payload)
	signed, err := eth_tx.SignTx(raw, eth_tx.NewEIP155Signer(chainId), prv)
	if err != nil {
		panic(err)
	}
	enc, err := rlp.EncodeToBytes(signed)
	if err != nil {
		panic(err)
	}
	sender, err := eth_tx.Sender(eth_tx.NewEIP155Signer(chainId), signed)
	if err != nil {
		panic(err)
	}
	return eth_tx.ConvertTx(signed, sender, enc), enc
}

func VerifC07_EthHonestAccepted() {
	height := uint64(1 << 40)
	c07Setup(height)
	tx, _ := c07EthHonest(height, common.GetChainId(height))
	symx.Check(c07Pool.VerifyTransaction(tx, height) == nil, "an honestly signed wrapped Ethereum transaction is accepted")
	symx.Reach("end")
}

// The wrapper must say exactly what the signed payload says.
func VerifC07_EthWrapperMutationRejected() {
	height := uint64(1 << 40)
	c07Setup(height)
	tx, _ := c07EthHonest(height, common.GetChainId(height))
	m := *tx
	switch symx.Choice("field", 7) {
	case 0:
		m.Source = common.HexStringToSecKey(c07KeyB).GetPubKey().GetAddress().GetHexString()
	case 1:
		m.Target = "0x" + hex.EncodeToString(symx.Bytes("to2", 20))
		symx.Assume(m.Target != tx.Target)
	case 2:
		m.Nonce = c07Nonces[symx.Choice("nonce2", len(c07Nonces))]
		symx.Assume(m.Nonce != tx.Nonce)
	case 3:
		m.ChainId = symx.Str("chain2", len(tx.ChainId))
		symx.Assume(m.ChainId != tx.ChainId)
	case 4:
		m.Data = symx.Str("data2", len(tx.Data))
		symx.Assume(m.Data != tx.Data)
	case 5:
		m.Hash = common.BytesToHash(symx.Bytes("hash2", 32))
		symx.Assume(m.Hash != tx.Hash)
	case 6:
		m.Type = types.TransactionTypeContract
	}
	symx.Check(c07Pool.VerifyTransaction(&m, height) != nil, "a wrapped transaction that differs from its signed payload is rejected")
	symx.Reach("end")
}

// A payload signed for another chain id is rejected.
func VerifC07_EthOtherChain() {
	height := uint64(1 << 40)
	c07Setup(height)
	other := new(big.Int).Add(common.GetChainId(height), big.NewInt(int64(1+symx.Choice("d", 3))))
	tx, _ := c07EthHonest(height, other)
	symx.Check(c07Pool.VerifyTransaction(tx, height) != nil, "an Ethereum transaction signed for another chain id is rejected")
	symx.Reach("end")
}

// One bit of the signed RLP payload flipped, the wrapper left as it was.
//   - concrete payload: every bit of every position (list header, length prefixes, nonce, value,
//     V, R, S ...), decided by plain execution of the decoder;
//   - symbolic recipient and call data: every bit inside those fields.
func VerifC07_EthPayloadBitFlip() {
	height := uint64(1 << 40)
	c07Setup(height)
	var tx *types.Transaction
	var enc []byte
	var pos int
	if symx.Choice("content", 2) == 0 {
		tx, enc = c07EthHonestC(height, common.GetChainId(height), 2, 1, 0, c07MarkTo, c07MarkData)
		pos = symx.Choice("pos", len(enc))
	} else {
		_, twin := c07EthHonestC(height, common.GetChainId(height), 2, 1, 0, c07MarkTo, c07MarkData)
		toAt, dataAt := bytes.Index(twin, c07MarkTo), bytes.Index(twin, c07MarkData)
		if toAt < 0 || dataAt < 0 {
			panic("markers not found in the encoded transaction")
		}
		tx, enc = c07EthHonestC(height, common.GetChainId(height), 2, 1, 0, symx.Bytes("to", 20), symx.Bytes("payload", 3))
		k := symx.Choice("pos", 23)
		if k < 20 {
			pos = toAt + k
		} else {
			pos = dataAt + k - 20
		}
	}
	e2 := append([]byte{}, enc...)
	e2[pos] ^= 1 << uint(symx.Choice("bit", 8))
	m := *tx
	m.ExtraData = common.ToHex(e2)
	symx.Check(c07Pool.VerifyTransaction(&m, height) != nil, "a wrapped transaction whose signed payload has one bit flipped is rejected")
	symx.Reach("end")
}

var (
	c07MarkTo   = []byte{0xa1, 0xa2, 0xa3, 0xa4, 0xa5, 0xa6, 0xa7, 0xa8, 0xa9, 0xaa, 0xab, 0xac, 0xad, 0xae, 0xaf, 0xb0, 0xb1, 0xb2, 0xb3, 0xb4}
	c07MarkData = []byte{0xc1, 0xc2, 0xc3}
)

// The declared target must be the signed recipient exactly as ConvertTx renders it: other
// spellings of the same address, and any target on a contract creation (which has none), are
// rejected.
func VerifC07_EthTargetSpelling() {
	height := uint64(1 << 40)
	c07Setup(height)
	chainId := common.GetChainId(height)
	var m types.Transaction
	if symx.Choice("creation", 2) == 0 {
		tx, _ := c07EthHonestC(height, chainId, 2, 1, 0, c07MarkTo, symx.Bytes("payload", 3))
		m = *tx
		switch symx.Choice("spelling", 3) {
		case 0:
			m.Target = "0x" + strings.ToUpper(tx.Target[2:])
		case 1:
			m.Target = tx.Target[2:]
		case 2:
			m.Target = "0x00" + tx.Target[2:]
		}
		symx.Assume(m.Target != tx.Target)
	} else {
		prv, _ := crypto.HexToECDSA(c07KeyA[2:])
		raw := eth_tx.NewContractCreation(12, big.NewInt(1), 21000, big.NewInt(1000000000), symx.Bytes("payload", 3))
		signed, err := eth_tx.SignTx(raw, eth_tx.NewEIP155Signer(chainId), prv)
		if err != nil {
			panic(err)
		}
		enc, _ := rlp.EncodeToBytes(signed)
		sender, err := eth_tx.Sender(eth_tx.NewEIP155Signer(chainId), signed)
		if err != nil {
			panic(err)
		}
		tx := eth_tx.ConvertTx(signed, sender, enc)
		symx.Check(tx.Target == "" && c07Pool.VerifyTransaction(tx, height) == nil, "an honestly signed contract creation is accepted with an empty target")
		m = *tx
		m.Target = []string{"0x0000000000000000000000000000000000000000", "0x", "0x" + hex.EncodeToString(symx.Bytes("to2", 20))}[symx.Choice("target", 3)]
	}
	symx.Check(c07Pool.VerifyTransaction(&m, height) != nil, "a wrapped transaction whose target is not exactly the signed recipient is rejected")
	symx.Reach("end")
}
