package service

import (
	"math/big"

	"com.tuntun.rangers/node/src/common"
	"com.tuntun.rangers/node/src/middleware/db"
	"com.tuntun.rangers/node/src/middleware/log"
	"com.tuntun.rangers/node/src/storage/account"
)

var vsInitDone bool

func vsInit(height uint64) {
	if !vsInitDone {
		common.Init(0, "verif.ini", "mainnet")
		account.Init()
		logger = log.GetLoggerByIndex(log.CoreLogConfig, "0")
		txLogger = log.GetLoggerByIndex(log.TxLogConfig, "0")
		InitMinerManager()
		InitRefundManager(nil, nil)
		vsInitDone = true
	}
	common.SetBlockHeight(height)
}

func vsNewState() *account.AccountDB {
	mem, _ := db.NewMemDatabase()
	st, err := account.NewAccountDB(common.Hash{}, account.NewDatabase(mem))
	if err != nil {
		panic(err)
	}
	return st
}

var vsTenTo18 = new(big.Int).Exp(big.NewInt(10), big.NewInt(18), nil)

func vsTokens(n uint64) *big.Int { return new(big.Int).Mul(new(big.Int).SetUint64(n), vsTenTo18) }

var (
	c01Src = "0x00000000000000000000000000000000000000a1"
	c01B   = "0x00000000000000000000000000000000000000b2"
	c01C   = "0x00000000000000000000000000000000000000c3"
)

func c01State() *account.AccountDB {
	st := vsNewState()
	st.SetBalance(common.HexToAddress(c01Src), vsTokens(50))
	st.SetBalance(common.HexToAddress(c01B), vsTokens(5))
	return st
}
