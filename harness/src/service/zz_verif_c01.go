package service

import (
	"math/big"

	"com.tuntun.rangers/node/src/common"
	"com.tuntun.rangers/node/src/middleware/types"
	symx "com.tuntun.rangers/node/src/zz_symx"
)

func c01Run(targets map[string]types.TransferData) (string, bool, [3]*big.Int) {
	st := c01State()
	snap := st.Snapshot()
	msg, ok := ChangeAssets(c01Src, targets, st)
	if !ok {
		st.RevertToSnapshot(snap) // as the executor does for a failed transaction
	}
	return msg, ok, [3]*big.Int{st.GetBalance(common.HexToAddress(c01Src)), st.GetBalance(common.HexToAddress(c01B)), st.GetBalance(common.HexToAddress(c01C))}
}

// An asset transfer to 2 or 3 targets with arbitrary two-digit amounts gives the same status, result
// text and balances for every iteration order of the JSON target map (executed twice, on equal
// states, under two independent arbitrary map orders). The sender may or may not be among its
// own targets.
func VerifC01_TransferMapOrder() {
	vsInit(1 << 40)
	withSelf := symx.Choice("self", 2) == 1
	n := 2 + symx.Choice("n", 2)
	keys := []string{c01B, c01C, "0x00000000000000000000000000000000000000d4"}
	if withSelf {
		keys[0] = c01Src
	}
	// amounts: enumerated (balances live in the state as minimal big-endian bytes, which makes
	// symbolic amounts very expensive); 0, small, more than half and more than all of the balance
	amounts := make([]string, n)
	for i := range amounts {
		amounts[i] = []string{"0", "5", "30", "60"}[symx.Choice("amt", 4)]
	}
	mk := func() map[string]types.TransferData {
		m := map[string]types.TransferData{}
		for i := 0; i < n; i++ {
			m[keys[i]] = types.TransferData{Balance: amounts[i]}
		}
		return m
	}
	symx.SymbolicMapOrder(true)
	msg1, ok1, bal1 := c01Run(mk())
	msg2, ok2, bal2 := c01Run(mk())
	symx.SymbolicMapOrder(false)
	where := "targets exclude the sender"
	if withSelf {
		where = "targets include the sender"
	}
	symx.Check(ok1 == ok2, "transfer status independent of target map order ["+where+"]")
	symx.Check(msg1 == msg2, "transfer result text independent of target map order ["+where+"]")
	for i := 0; i < 3; i++ {
		symx.Check(bal1[i].Cmp(bal2[i]) == 0, "balances independent of target map order ["+where+"]")
	}
	symx.Reach("end")
}

// Scheduled refunds of one height are paid out the same way for every iteration order.
func VerifC01_RefundMapOrder() {
	vsInit(1 << 40)
	h := uint64(77)
	a1, a2 := common.HexToAddress(c01B), common.HexToAddress(c01C)
	v1 := big.NewInt([]int64{1, 70000}[symx.Choice("v1", 2)])
	v2 := big.NewInt([]int64{1, 70000}[symx.Choice("v2", 2)])
	run := func() (common.Hash, [2]*big.Int) {
		st := c01State()
		l := types.RefundInfoList{}
		l.AddRefundInfo(a1.Bytes(), v1)
		l.AddRefundInfo(a2.Bytes(), v2)
		RefundManagerImpl.Add(map[uint64]types.RefundInfoList{h: l}, st)
		RefundManagerImpl.CheckAndMove(h, st)
		return st.IntermediateRoot(true), [2]*big.Int{st.GetBalance(a1), st.GetBalance(a2)}
	}
	symx.SymbolicMapOrder(true)
	r1, b1 := run()
	r2, b2 := run()
	symx.SymbolicMapOrder(false)
	symx.Check(b1[0].Cmp(b2[0]) == 0 && b1[1].Cmp(b2[1]) == 0, "refund payout independent of map order")
	symx.Check(r1 == r2, "state root after refund payout independent of map order")
	symx.Reach("end")
}
