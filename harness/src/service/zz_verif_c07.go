package service

import (
	"com.tuntun.rangers/node/src/common"
	"com.tuntun.rangers/node/src/middleware/log"
	"com.tuntun.rangers/node/src/middleware/types"
	symx "com.tuntun.rangers/node/src/zz_symx"
)

const (
	c07KeyA = "0x8c5a1f0e3d2b4c6978a1b2c3d4e5f60718293a4b5c6d7e8f9a0b1c2d3e4f5061"
	c07KeyB = "0x1d4e7a0b3c6f9281a4b7c0d3e6f9a2b5c8d1e4f7a0b3c6d9e2f5a8b1c4d7e0f3"
)

// nonce and type are rendered in decimal inside the hash preimage: enumerated (one to twenty
// digits; values that are digit-wise prefixes of each other)
var (
	c07Nonces = []uint64{0, 1, 12, 123, 1<<64 - 1}
	c07Types  = []int32{0, 1, 10, 101, types.TransactionTypeContract}
)

var c07Pool *TxPool

func c07Setup(height uint64) {
	vsInit(height)
	if c07Pool == nil {
		txPoolLogger = log.GetLoggerByIndex(log.TxPoolLogConfig, "0")
		c07Pool = &TxPool{}
	}
}

// an honestly signed native transaction with arbitrary content
func c07Honest(key string, height uint64) (*types.Transaction, *common.PrivateKey) {
	sk := common.HexStringToSecKey(key)
	pk := sk.GetPubKey()
	tx := &types.Transaction{
		Source:    pk.GetAddress().GetHexString(),
		Target:    symx.Str("target", 3),
		Type:      c07Types[symx.Choice("type", len(c07Types))],
		Time:      symx.Str("time", 2),
		Data:      symx.Str("data", 3),
		ExtraData: symx.Str("extra", 2),
		Nonce:     c07Nonces[symx.Choice("nonce", len(c07Nonces))],
		ChainId:   common.ChainId(height),
	}
	tx.Hash = tx.GenHash()
	sign := sk.Sign(tx.Hash.Bytes())
	tx.Sign = &sign
	return tx, sk
}

// Honestly signed transactions are always accepted.
func VerifC07_HonestAccepted() {
	height := []uint64{1, 1 << 40}[symx.Choice("height", 2)]
	c07Setup(height)
	tx, _ := c07Honest(c07KeyA, height)
	symx.Check(c07Pool.VerifyTransaction(tx, height) == nil, "an honestly signed transaction is accepted")
	symx.Reach("end")
}

// Changing any one authenticated field of an accepted transaction - with the hash left as it was,
// or recomputed by the attacker - makes it rejected; so does changing the hash alone, the
// signature, or replacing the signature by another signer's over the same hash.
func VerifC07_MutationRejected() {
	height := uint64(1 << 40)
	c07Setup(height)
	tx, _ := c07Honest(c07KeyA, height)
	symx.Assume(c07Pool.VerifyTransaction(tx, height) == nil)
	m := *tx
	field := symx.Choice("field", 12)
	switch field {
	case 0:
		m.Target = symx.Str("target2", 3)
		symx.Assume(m.Target != tx.Target)
	case 1:
		m.Target = symx.Str("target2", 4) // a different length
	case 2:
		m.Type = c07Types[symx.Choice("type2", len(c07Types))]
		symx.Assume(m.Type != tx.Type)
	case 3:
		m.Time = symx.Str("time2", 2)
		symx.Assume(m.Time != tx.Time)
	case 4:
		m.Data = symx.Str("data2", 3)
		symx.Assume(m.Data != tx.Data)
	case 5:
		m.Data = symx.Str("data2", 2)
	case 6:
		m.ExtraData = symx.Str("extra2", 2)
		symx.Assume(m.ExtraData != tx.ExtraData)
	case 7:
		m.Nonce = c07Nonces[symx.Choice("nonce2", len(c07Nonces))]
		symx.Assume(m.Nonce != tx.Nonce)
	case 8:
		m.ChainId = symx.Str("chain2", len(tx.ChainId))
		symx.Assume(m.ChainId != tx.ChainId)
	case 9:
		// another account claims the transaction
		other := common.HexStringToSecKey(c07KeyB).GetPubKey()
		m.Source = other.GetAddress().GetHexString()
	case 10:
		m.Hash = common.BytesToHash(symx.Bytes("hash2", 32))
		symx.Assume(m.Hash != tx.Hash)
	case 11:
		// signature by another key over the same hash
		s := common.HexStringToSecKey(c07KeyB).Sign(tx.Hash.Bytes())
		m.Sign = &s
	}
	if field <= 9 && symx.Choice("rehash", 2) == 1 {
		m.Hash = m.GenHash()
	}
	symx.Check(c07Pool.VerifyTransaction(&m, height) != nil, "a transaction with one authenticated field changed is rejected")
	symx.Reach("end")
}

// Single-bit mutations of the 65 signature bytes.
func VerifC07_SignatureBitFlip() {
	height := uint64(1 << 40)
	c07Setup(height)
	tx, _ := c07Honest(c07KeyA, height)
	sig := tx.Sign.Bytes()
	pos := int(symx.U8("byte"))
	symx.Assume(pos < 65)
	bit := symx.U8("bit")
	symx.Assume(bit < 8)
	sig[pos] ^= 1 << bit
	m := *tx
	m.Sign = common.BytesToSign(sig)
	symx.Check(c07Pool.VerifyTransaction(&m, height) != nil, "a transaction whose signature has one bit flipped is rejected")
	symx.Reach("end")
}

// A transaction honestly signed for another chain id (replay from another network) is rejected,
// and so is one without signature.
func VerifC07_WrongChainOrNoSign() {
	height := []uint64{1, 1 << 40}[symx.Choice("height", 2)]
	c07Setup(height)
	tx, sk := c07Honest(c07KeyA, height)
	m := *tx
	if symx.Choice("case", 2) == 0 {
		m.ChainId = symx.Str("chain2", len(tx.ChainId))
		symx.Assume(m.ChainId != tx.ChainId)
		m.Hash = m.GenHash()
		s := sk.Sign(m.Hash.Bytes())
		m.Sign = &s
	} else {
		m.Sign = nil
	}
	symx.Check(c07Pool.VerifyTransaction(&m, height) != nil, "a transaction for another chain id, or without signature, is rejected")
	symx.Reach("end")
}
