package service

import (
	"strconv"

	"com.tuntun.rangers/node/src/common"
	"com.tuntun.rangers/node/src/middleware/db"
	"com.tuntun.rangers/node/src/middleware/log"
	"com.tuntun.rangers/node/src/middleware/mysql"
	"com.tuntun.rangers/node/src/middleware/types"
	"com.tuntun.rangers/node/src/storage/account"
	symx "com.tuntun.rangers/node/src/zz_symx"
	"github.com/gogf/gf/container/gmap"
	lru "github.com/hashicorp/golang-lru"
)

// a pool over in-memory stores, built like newTransactionPool (without the expiry goroutine)
var c17Init bool

func c17Pool(limit int) *TxPool {
	txPoolLogger = log.GetLoggerByIndex(log.TxPoolLogConfig, "0")
	if !c17Init {
		// MarkExecuted hands the receipts to the sqlite log index in a goroutine
		mysql.InitMySql()
		c17Init = true
	}
	pool := &TxPool{}
	pool.received = &simpleContainer{data: gmap.NewListMap(true), limit: limit}
	pool.evictedTxs, _ = lru.New(txCacheSize)
	mem, _ := db.NewMemDatabase()
	pool.executed = mem
	pool.batch = mem.NewBatch()
	return pool
}

const (
	c17A = "0x00000000000000000000000000000000000000a1"
	c17B = "0x00000000000000000000000000000000000000b2"
)

// the universe of transactions: three nonce-checked ones of sender A, one of sender B, one
// gateway transaction (request id set) of A; nonces symbolic in 0..3
func c17Universe() []*types.Transaction {
	txs := make([]*types.Transaction, 5)
	for i := range txs {
		src, req := c17A, uint64(0)
		if i == 3 {
			src = c17B
		}
		if i == 4 {
			req = 7
		}
		n := uint64(symx.U8("nonce" + strconv.Itoa(i)))
		symx.Assume(n < 4)
		tx := &types.Transaction{Source: src, Target: c17B, Type: 1, Nonce: n, RequestId: req, Data: strconv.Itoa(i), ChainId: "2025"}
		tx.Hash = common.BytesToHash([]byte{0xf0, byte(i + 1)})
		txs[i] = tx
	}
	return txs
}

type c17Model struct {
	pending  map[int]bool
	executed map[int]bool
}

func c17State(nonceA, nonceB uint64) *account.AccountDB {
	st := vsNewState()
	st.SetNonce(common.HexToAddress(c17A), nonceA)
	st.SetNonce(common.HexToAddress(c17B), nonceB)
	return st
}

func c17Index(txs []*types.Transaction, h common.Hash) int {
	for i, t := range txs {
		if t.Hash == h {
			return i
		}
	}
	return -1
}

// the pool agrees with the model: pending and executed are disjoint, lookups answer accordingly
func c17CheckAgainstModel(pool *TxPool, txs []*types.Transaction, m *c17Model) {
	for i, tx := range txs {
		inPending := pool.received.contains(tx.Hash)
		isExec, _ := pool.executed.Has(tx.Hash.Bytes())
		symx.Check(!(inPending && isExec), "an executed transaction is not pending")
		symx.Check(inPending == m.pending[i], "pending set as expected")
		symx.Check(isExec == m.executed[i], "executed set as expected")
		symx.Check(pool.IsExisted(tx.Hash) == (m.pending[i] || m.executed[i]), "IsExisted answers for pending and executed transactions")
		got, err := pool.GetTransaction(tx.Hash)
		if m.pending[i] || m.executed[i] {
			symx.Check(err == nil && got != nil && got.Hash == tx.Hash && got.Nonce == tx.Nonce && got.Source == tx.Source, "GetTransaction returns the transaction")
		} else {
			symx.Check(err != nil, "GetTransaction reports an unknown transaction")
		}
	}
}

// a packed batch: known pending transactions only, no duplicates, at most the per-block limit,
// nonce-checked transactions of one sender in ascending nonce order and none ahead of the
// sender's next expected nonce
func c17CheckPack(packed []*types.Transaction, txs []*types.Transaction, m *c17Model, nonceA, nonceB uint64) {
	symx.Check(len(packed) <= txCountPerBlock, "at most the per-block limit")
	seen := map[int]bool{}
	expected := map[string]uint64{c17A: nonceA, c17B: nonceB}
	last := map[string]uint64{}
	hasLast := map[string]bool{}
	for _, p := range packed {
		i := c17Index(txs, p.Hash)
		symx.Check(i >= 0 && m.pending[i], "only pending transactions are packed")
		symx.Check(i < 0 || !m.executed[i], "an executed transaction is never packed again")
		symx.Check(!seen[i], "no duplicates in a packed batch")
		seen[i] = true
		if p.RequestId == 0 {
			symx.Check(p.Nonce <= expected[p.Source], "no transaction ahead of the sender's next expected nonce is packed")
			if p.Nonce == expected[p.Source] {
				expected[p.Source]++
			}
			if hasLast[p.Source] {
				symx.Check(last[p.Source] <= p.Nonce, "a sender's transactions are packed in ascending nonce order")
			}
			last[p.Source], hasLast[p.Source] = p.Nonce, true
		}
	}
	// nothing eligible is left out: an in-sequence pending transaction is packed
	for i, tx := range txs {
		if m.pending[i] && tx.RequestId == 0 && !seen[i] {
			symx.Check(tx.Nonce > expected[tx.Source], "a skipped transaction is one whose nonce is not yet reachable")
		}
	}
}

func c17Block(height uint64, txs []*types.Transaction, pick []int) (*types.Block, types.Receipts) {
	b := &types.Block{Header: &types.BlockHeader{Height: height, Hash: common.BytesToHash([]byte{0xb0, byte(height)})}}
	var rs types.Receipts
	for _, i := range pick {
		b.Transactions = append(b.Transactions, txs[i])
		rs = append(rs, &types.Receipt{TxHash: txs[i].Hash, Height: height, Status: 1})
	}
	return b, rs
}

func c17History(steps int) {
	vsInit(1 << 40)
	pool := c17Pool(10)
	txs := c17Universe()
	m := &c17Model{pending: map[int]bool{}, executed: map[int]bool{}}
	nonceA, nonceB := uint64(symx.Choice("stateNonceA", 3)), uint64(symx.Choice("stateNonceB", 2))
	st := c17State(nonceA, nonceB)
	var blocks []*types.Block
	var blockTxs [][]int
	for s := 0; s < steps; s++ {
		tag := "s" + strconv.Itoa(s)
		switch symx.Choice(tag+".op", 4) {
		case 0: // submit one transaction
			i := symx.Choice(tag+".tx", len(txs))
			ok, err := pool.AddTransaction(txs[i])
			if m.pending[i] || m.executed[i] {
				symx.Check(!ok && err != nil, "a pending or executed transaction is not accepted again")
			} else {
				symx.Check(ok && err == nil, "a new transaction is accepted")
				m.pending[i] = true
			}
		case 1: // pack for a new block
			c17CheckPack(pool.PackForCast(100, st), txs, m, nonceA, nonceB)
		case 2: // a block with the first k packed transactions is added to the chain
			packed := pool.PackForCast(100, st)
			k := symx.Choice(tag+".k", 3)
			if k > len(packed) {
				k = len(packed)
			}
			var pick []int
			for _, p := range packed[:k] {
				pick = append(pick, c17Index(txs, p.Hash))
			}
			b, rs := c17Block(uint64(10+len(blocks)), txs, pick)
			// optionally the next packed transaction is evicted by this block
			if k < len(packed) && symx.Choice(tag+".evict", 2) == 1 {
				b.Header.EvictedTxs = []common.Hash{packed[k].Hash}
				m.pending[c17Index(txs, packed[k].Hash)] = false
			}
			pool.MarkExecuted(b.Header, rs, b.Transactions, b.Header.EvictedTxs)
			for _, i := range pick {
				m.pending[i], m.executed[i] = false, true
			}
			blocks, blockTxs = append(blocks, b), append(blockTxs, pick)
		case 3: // the last block is removed by a reorg
			if len(blocks) == 0 {
				symx.Assume(false)
			}
			b, pick := blocks[len(blocks)-1], blockTxs[len(blockTxs)-1]
			blocks, blockTxs = blocks[:len(blocks)-1], blockTxs[:len(blockTxs)-1]
			pool.UnMarkExecuted(b)
			for _, i := range pick {
				m.pending[i], m.executed[i] = true, false
			}
		}
		c17CheckAgainstModel(pool, txs, m)
	}
	c17CheckPack(pool.PackForCast(100, st), txs, m, nonceA, nonceB)
	symx.Reach("end")
}

// Directed deeper history (six pool operations): every transaction of the universe is submitted, a
// block executes the first k packed ones and evicts the next, the evicted transaction is submitted
// again, a second block executes what is packed then, and that block (optionally also the first)
// is removed by a reorg. After each step the pool agrees with the model; in particular a
// transaction that was once evicted and later executed becomes pending again with its block.
func VerifC17_EvictedThenReorg() {
	vsInit(1 << 40)
	pool := c17Pool(10)
	txs := c17Universe()
	m := &c17Model{pending: map[int]bool{}, executed: map[int]bool{}}
	nonceA, nonceB := uint64(symx.Choice("stateNonceA", 2)), uint64(symx.Choice("stateNonceB", 2))
	st := c17State(nonceA, nonceB)
	for i := range txs {
		ok, err := pool.AddTransaction(txs[i])
		symx.Check(ok && err == nil, "a new transaction is accepted")
		m.pending[i] = true
	}
	mkBlock := func(h uint64, tag string, evict bool) (*types.Block, []int, int) {
		packed := pool.PackForCast(100, st)
		k := symx.Choice(tag+".k", 3)
		if k > len(packed) {
			k = len(packed)
		}
		var pick []int
		for _, p := range packed[:k] {
			pick = append(pick, c17Index(txs, p.Hash))
		}
		b, rs := c17Block(h, txs, pick)
		ev := -1
		if evict && k < len(packed) {
			ev = c17Index(txs, packed[k].Hash)
			b.Header.EvictedTxs = []common.Hash{packed[k].Hash}
			m.pending[ev] = false
		}
		pool.MarkExecuted(b.Header, rs, b.Transactions, b.Header.EvictedTxs)
		for _, i := range pick {
			m.pending[i], m.executed[i] = false, true
		}
		return b, pick, ev
	}
	b1, pick1, ev := mkBlock(10, "b1", true)
	c17CheckAgainstModel(pool, txs, m)
	if ev < 0 {
		symx.Assume(false) // nothing left to evict: covered by the generic histories
	}
	ok, err := pool.AddTransaction(txs[ev])
	symx.Check(ok && err == nil, "an evicted transaction may be submitted again")
	m.pending[ev] = true
	c17CheckAgainstModel(pool, txs, m)
	b2, pick2, _ := mkBlock(11, "b2", false)
	c17CheckAgainstModel(pool, txs, m)
	pool.UnMarkExecuted(b2)
	for _, i := range pick2 {
		m.pending[i], m.executed[i] = true, false
	}
	c17CheckAgainstModel(pool, txs, m)
	if symx.Choice("reorg1", 2) == 1 {
		pool.UnMarkExecuted(b1)
		for _, i := range pick1 {
			m.pending[i], m.executed[i] = true, false
		}
		c17CheckAgainstModel(pool, txs, m)
	}
	c17CheckPack(pool.PackForCast(100, st), txs, m, nonceA, nonceB)
	symx.Reach("end")
}

func VerifC17_History3()  { c17History(3) }
func VerifC17T_History4() { c17History(4) }

// All five transactions pending: the packed batch for every nonce assignment and state nonce.
func VerifC17_PackAll() {
	vsInit(1 << 40)
	pool := c17Pool(10)
	txs := c17Universe()
	m := &c17Model{pending: map[int]bool{}, executed: map[int]bool{}}
	for i, tx := range txs {
		pool.AddTransaction(tx)
		m.pending[i] = true
	}
	nonceA, nonceB := uint64(symx.Choice("stateNonceA", 4)), uint64(symx.Choice("stateNonceB", 2))
	c17CheckPack(pool.PackForCast(100, c17State(nonceA, nonceB)), txs, m, nonceA, nonceB)
	symx.Reach("end")
}

// The pending container never exceeds its limit.
func VerifC17_Limit() {
	vsInit(1 << 40)
	pool := c17Pool(3)
	txs := c17Universe()
	for _, tx := range txs {
		pool.AddTransaction(tx)
		symx.Check(pool.received.Len() <= 3, "the pending container respects its size limit")
	}
	symx.Reach("end")
}
