package service

import (
	"math/big"

	"com.tuntun.rangers/node/src/common"
	"com.tuntun.rangers/node/src/middleware/types"
	"com.tuntun.rangers/node/src/storage/account"
	symx "com.tuntun.rangers/node/src/zz_symx"
)

var c06Accts = []common.Address{common.HexToAddress(c01Src), common.HexToAddress(c01B), common.HexToAddress(c01C), common.FeeAccount}

func c06Sum(st *account.AccountDB) *big.Int {
	s := new(big.Int)
	for _, a := range c06Accts {
		b := st.GetBalance(a)
		symx.Check(b.Sign() >= 0, "no balance is negative")
		s.Add(s, b)
	}
	return s
}

// amount strings the property names: zero, whole, fractional, more than 18 decimals, negative, huge
var c06Amounts = []string{"0", "5", "50", "50.000000000000000001", "0.5", "0.0000000000000000019", "-3", "-0.5", "51", "115792089237316195423570985008687907853269984665640564039457584007913129639936", "", "abc"}

// transferBalance: whatever the amount string and whether or not source and target are the same
// account, the sum of balances is unchanged and nothing goes negative.
func VerifC06_TransferBalance() {
	vsInit(1 << 40)
	st := c01State() // source 50 tokens, B 5 tokens
	src := c06Accts[0]
	dst := c06Accts[symx.Choice("target", 3)] // 0 = the source itself
	amt := c06Amounts[symx.Choice("amount", len(c06Amounts))]
	before := c06Sum(st)
	srcBefore := st.GetBalance(src)
	ok, left := transferBalance(amt, src, dst, st)
	after := c06Sum(st)
	symx.Check(after.Cmp(before) == 0, "a transfer does not change the sum of balances")
	if !ok {
		symx.Check(st.GetBalance(src).Cmp(srcBefore) == 0, "a refused transfer changes nothing")
	} else {
		symx.Check(left != nil && left.Cmp(st.GetBalance(src)) == 0, "the reported remaining balance is the sender's balance")
	}
	symx.Reach("end")
}

// ChangeAssets with a multi-target map: the sum of balances is unchanged whether it succeeds or fails.
func VerifC06_ChangeAssetsSum() {
	vsInit(1 << 40)
	st := c01State()
	n := 1 + symx.Choice("n", 2)
	keys := []string{c01B, c01Src, c01C}
	m := map[string]types.TransferData{}
	for i := 0; i < n; i++ {
		m[keys[symx.Choice("key", 3)]] = types.TransferData{Balance: c06Amounts[symx.Choice("amount", 9)]}
	}
	before := c06Sum(st)
	_, _ = ChangeAssets(c01Src, m, st)
	symx.Check(c06Sum(st).Cmp(before) == 0, "an asset transfer does not change the sum of balances")
	symx.Reach("end")
}

// The flat transaction fee moves value from the sender to the fee account, or changes nothing.
func VerifC06_ProcessFee() {
	vsInit(1 << 40)
	st := vsNewState()
	// balance below / at / above the fee
	fee := delta
	if common.IsProposal026() {
		fee = delta026
	}
	bal := new(big.Int).Add(fee, big.NewInt(int64(symx.Choice("rel", 3))-1))
	st.SetBalance(c06Accts[0], bal)
	before := c06Sum(st)
	pool := &TxPool{}
	err := pool.ProcessFee(types.Transaction{Source: c01Src}, st)
	symx.Check(c06Sum(st).Cmp(before) == 0, "the fee only moves value to the fee account")
	if err != nil {
		symx.Check(st.GetBalance(c06Accts[0]).Cmp(bal) == 0, "a refused fee changes nothing")
	} else {
		symx.Check(st.GetBalance(common.FeeAccount).Cmp(fee) == 0, "the fee account receives exactly the fee")
	}
	symx.Reach("end")
}
