package service

import (
	"bytes"
	"math/big"

	"com.tuntun.rangers/node/src/common"
	"com.tuntun.rangers/node/src/middleware/types"
	"com.tuntun.rangers/node/src/storage/account"
	symx "com.tuntun.rangers/node/src/zz_symx"
)

var (
	c20Accts = []common.Address{{19: 0xa1}, {19: 0xb2}}
	c20Ids   = [][]byte{{0x11, 0x01}, {0x22, 0x02}}
)

const c20Height = uint64(1) << 40

// everything the property speaks about, read through the public lookups
type c20View struct {
	byId      [2]*types.Miner
	idByAcct  [2]types.HexBytes
	liquid    [2]*big.Int
	scheduled *big.Int
}

func c20Scheduled(st *account.AccountDB) *big.Int {
	sum := new(big.Int)
	for _, v := range st.GetAllRefund(RefundManagerImpl.generateAddress(c20Height + refundHeight)) {
		sum.Add(sum, v)
	}
	return sum
}

func c20Observe(st *account.AccountDB) *c20View {
	st.IntermediateRoot(false) // the registry iterator reads the flushed trie
	v := &c20View{scheduled: c20Scheduled(st)}
	for i := 0; i < 2; i++ {
		v.byId[i] = MinerManagerImpl.GetMiner(c20Ids[i], st)
		v.idByAcct[i] = MinerManagerImpl.GetMinerIdByAccount(c20Accts[i].Bytes(), st)
		v.liquid[i] = st.GetBalance(c20Accts[i])
	}
	return v
}

// locked stake + scheduled refunds + liquid balances, in ledger units
func c20Total(v *c20View) *big.Int {
	t := new(big.Int).Set(v.scheduled)
	for i := 0; i < 2; i++ {
		t.Add(t, v.liquid[i])
		if v.byId[i] != nil {
			t.Add(t, vsTokens(v.byId[i].Stake))
		}
	}
	return t
}

func c20Consistent(st *account.AccountDB, v *c20View, where string) {
	for i := 0; i < 2; i++ {
		m := v.byId[i]
		if m == nil {
			continue
		}
		// lookup by id and by account agree; the account owns exactly this miner
		owner := -1
		for a := 0; a < 2; a++ {
			if bytes.Equal(m.Account, c20Accts[a].Bytes()) {
				owner = a
			}
		}
		symx.Check(owner >= 0, where+": the record's account is one of the accounts that applied")
		if owner >= 0 {
			symx.Check(bytes.Equal(v.idByAcct[owner], m.Id), where+": lookup by account returns the same miner as lookup by id")
		}
		byKind := MinerManagerImpl.GetMinerById(m.Id, m.Type, st)
		symx.Check(byKind != nil && byKind.Stake == m.Stake && bytes.Equal(byKind.Account, m.Account), where+": lookup by id and kind returns the same record")
	}
	if v.byId[0] != nil && v.byId[1] != nil {
		symx.Check(!bytes.Equal(v.byId[0].Account, v.byId[1].Account), where+": an account controls at most one miner")
	}
	// the totals leader election uses equal the sums over the active records
	wantP, wantV, nP := uint64(0), uint64(0), 0
	for i := 0; i < 2; i++ {
		if m := v.byId[i]; m != nil {
			if m.Type == common.MinerTypeProposer && m.Status == common.MinerStatusNormal && m.ApplyHeight <= c20Height {
				wantP += m.Stake
				nP++
			}
			if m.Type == common.MinerTypeValidator {
				wantV += m.Stake
			}
		}
	}
	totalP, detail := MinerManagerImpl.GetProposerTotalStakeWithDetail(c20Height, st)
	symx.Check(totalP == wantP && len(detail) == nP, where+": proposer total stake and count equal the sum over the active proposer records")
	totalV, _ := MinerManagerImpl.GetValidatorsStake([][]byte{c20Ids[0], c20Ids[1]}, st)
	symx.Check(totalV == wantV, where+": validators' stake equals the sum over the validator records")
}

func c20Miner(i int, kind byte, stake uint64, acct int) *types.Miner {
	return &types.Miner{Id: c20Ids[i], PublicKey: []byte{1, 2, byte(i)}, VrfPublicKey: []byte{3, 4, byte(i)}, Type: kind, Stake: stake, Account: c20Accts[acct].Bytes(), ApplyHeight: 1}
}

// one miner-management operation (see VerifC20_Step); tag prefixes the input names
func c20Op(tag string, st *account.AccountDB, before *c20View) bool {
	accepted := false
	switch symx.Choice(tag+"op", 4) {
	case 0: // apply a second miner: id 1, by account 0 or 1, either kind, stake below / at / above the minimum
		kind := byte(symx.Choice(tag+"kind", 2))
		min := uint64(common.ValidatorStake)
		if kind == common.MinerTypeProposer {
			min = common.ProposerStake
		}
		stake := []uint64{min - 1, min, min + 50}[symx.Choice(tag+"stake", 3)]
		acct := symx.Choice(tag+"acct", 2)
		accepted, _ = MinerManagerImpl.AddMiner(c20Accts[acct], c20Miner(1, kind, stake, acct), st)
		if acct == 0 && before.byId[0] != nil {
			symx.Check(!accepted, "an account that already controls a miner cannot apply another one")
		}
		if stake < min {
			symx.Check(!accepted, "an application below the minimum stake is rejected")
		}
	case 1: // add stake to miner 0 from account 0 or 1
		delta := []uint64{0, 1, 500, 20000}[symx.Choice(tag+"delta", 4)]
		acct := symx.Choice(tag+"acct", 2)
		oldStake := uint64(0)
		if before.byId[0] != nil {
			oldStake = before.byId[0].Stake
		}
		accepted, _ = MinerManagerImpl.AddStake(c20Accts[acct], c20Ids[0], delta, st)
		if accepted && before.byId[0] != nil {
			after := MinerManagerImpl.GetMiner(c20Ids[0], st)
			symx.Check(after != nil && after.Stake == oldStake+delta, "stake equals applied plus added")
		}
		if before.byId[0] == nil && delta != 0 {
			symx.Check(!accepted, "adding stake to an unknown miner is rejected")
		}
	case 2: // refund from miner 0: arbitrary amount (part, all, more than the stake, the 'all' sentinel)
		money := symx.U64(tag + "money")
		acct := symx.Choice(tag+"acct", 2)
		h, amount, addr, err := RefundManagerImpl.GetRefundStake(c20Height, c20Ids[0], c20Accts[acct].Bytes(), money, st, "casting")
		accepted = err == nil
		if accepted {
			info := types.RefundInfoList{}
			info.AddRefundInfo(addr, amount)
			RefundManagerImpl.Add(map[uint64]types.RefundInfoList{h: info}, st)
			symx.Check(h == c20Height+refundHeight, "refund is scheduled at the expected height")
			symx.Check(acct == 0 && before.byId[0] != nil, "only the owner can refund an existing miner")
			if before.byId[0] != nil {
				symx.Check(money == ^uint64(0) || money <= before.byId[0].Stake, "a refund never exceeds the stake")
			}
		}
	case 3: // two refunds scheduled for the same height in separate Add calls accumulate
		if before.byId[0] != nil {
			h1, a1, addr1, e1 := RefundManagerImpl.GetRefundStake(c20Height, c20Ids[0], c20Accts[0].Bytes(), 10, st, "casting")
			symx.Check(e1 == nil, "a small partial refund is accepted")
			i1 := types.RefundInfoList{}
			i1.AddRefundInfo(addr1, a1)
			RefundManagerImpl.Add(map[uint64]types.RefundInfoList{h1: i1}, st)
			h2, a2, addr2, e2 := RefundManagerImpl.GetRefundStake(c20Height, c20Ids[0], c20Accts[0].Bytes(), 20, st, "casting")
			symx.Check(e2 == nil, "a second partial refund is accepted")
			i2 := types.RefundInfoList{}
			i2.AddRefundInfo(addr2, a2)
			RefundManagerImpl.Add(map[uint64]types.RefundInfoList{h2: i2}, st)
			accepted = true
		}
	}
	return accepted
}

// One miner-management operation from a registry that already holds 0..1 miners: conservation of
// locked + scheduled + liquid, agreement of the lookup paths, one miner per account, and a
// rejected operation changes nothing.
func VerifC20_Step() {
	vsInit(c20Height)
	st := vsNewState()
	st.SetBalance(c20Accts[0], vsTokens(10000))
	st.SetBalance(c20Accts[1], vsTokens(3000))
	// pre-state: optionally a validator or proposer applied by account 0
	kind0 := byte(symx.Choice("pre", 3)) // 0 validator, 1 proposer, 2 none
	if kind0 != 2 {
		stake := uint64(common.ValidatorStake)
		if kind0 == common.MinerTypeProposer {
			stake = common.ProposerStake
		}
		ok, _ := MinerManagerImpl.AddMiner(c20Accts[0], c20Miner(0, kind0, stake+uint64(symx.Choice("preextra", 2))*100, 0), st)
		symx.Check(ok, "the pre-state application is accepted")
	}
	before := c20Observe(st)
	c20Consistent(st, before, "pre-state")
	total := c20Total(before)

	accepted := c20Op("", st, before)
	after := c20Observe(st)
	c20Consistent(st, after, "after the operation")
	symx.Check(c20Total(after).Cmp(total) == 0, "locked stake + scheduled refunds + liquid balances stay constant")
	if !accepted {
		for i := 0; i < 2; i++ {
			symx.Check(after.liquid[i].Cmp(before.liquid[i]) == 0, "a rejected operation leaves balances unchanged")
			symx.Check((after.byId[i] == nil) == (before.byId[i] == nil), "a rejected operation leaves the registry unchanged")
			if after.byId[i] != nil && before.byId[i] != nil {
				symx.Check(after.byId[i].Stake == before.byId[i].Stake, "a rejected operation leaves stakes unchanged")
			}
		}
		symx.Check(after.scheduled.Cmp(before.scheduled) == 0, "a rejected operation schedules nothing")
	}
	symx.Reach("end")
}

// thorough: two operations in sequence from each pre-state; the invariants after each
func VerifC20T_TwoSteps() {
	vsInit(c20Height)
	st := vsNewState()
	st.SetBalance(c20Accts[0], vsTokens(10000))
	st.SetBalance(c20Accts[1], vsTokens(3000))
	kind0 := byte(symx.Choice("pre", 3))
	if kind0 != 2 {
		stake := uint64(common.ValidatorStake)
		if kind0 == common.MinerTypeProposer {
			stake = common.ProposerStake
		}
		ok, _ := MinerManagerImpl.AddMiner(c20Accts[0], c20Miner(0, kind0, stake, 0), st)
		symx.Check(ok, "the pre-state application is accepted")
	}
	v := c20Observe(st)
	total := c20Total(v)
	for step := 0; step < 2; step++ {
		c20Op("s"+string(rune('0'+step))+".", st, v)
		v = c20Observe(st)
		c20Consistent(st, v, "after each of two operations")
		symx.Check(c20Total(v).Cmp(total) == 0, "locked stake + scheduled refunds + liquid balances stay constant")
	}
	symx.Reach("end")
}
