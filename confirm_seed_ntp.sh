#!/bin/bash
# usage: confirm_seed_ntp.sh <worktree> <seed dir> <pkg dir> <demo test regex>
# Like confirm_seed.sh for packages whose init hangs on NTP without network: the test aid
# (ntpOffset does not retry forever) is applied to the scratch worktree for every run; it is not
# part of the seed. A helper_*.go in the seed dir is copied next to its package (part of the demo).
WT="$1"; SD="$2"; PKG="$3"; RX="$4"
export GOFLAGS=-mod=mod GOPROXY=off GOSUMDB=off GOTOOLCHAIN=local
cd "$WT" || exit 2
git checkout -q -- .; rm -f "$PKG"/zz_seed_demo_test.go
aid() { sed -i 's/^func ntpOffset(ensure bool) time.Duration {$/func ntpOffset(ensure bool) time.Duration {\n\tensure = false \/\/ TEST AID/' src/utility/ntp.go; }
echo "existing tests + demo run with the NTP test aid applied (package init otherwise hangs without network)"
verd() { timeout 1200 go test -vet=off -count=1 -json ./"$PKG"/ 2>/dev/null | python3 -c "
import sys,json
r={}
for l in sys.stdin:
    try: e=json.loads(l)
    except: continue
    if e.get('Test') and e.get('Action') in ('pass','fail'): r[e['Test']]=e['Action']
print(' '.join(sorted(k+':'+v for k,v in r.items() if '/' not in k)))"; }
aid; BASE=$(verd)
git apply "$SD/patch.diff" || { echo "APPLY FAILED"; exit 1; }
go build ./"$PKG"/ 2>/dev/null && echo build_with_patch=ok || echo build_with_patch=FAIL
WITH=$(verd)
[ "$BASE" == "$WITH" ] && echo "existing_tests_same_verdicts=yes ($(echo $BASE | wc -w) tests)" || { echo existing_tests_same_verdicts=NO; echo "$BASE"; echo "$WITH"; }
cp "$SD/demo_test.go" "$PKG"/zz_seed_demo_test.go
HELPERS=""
for h in "$SD"/helper_*.go; do [ -f "$h" ] || continue; d="${HELPER_DIR:-src/consensus/logical/group_create}"; cp "$h" "$d/zz_seed_helper.go"; HELPERS="$HELPERS $d/zz_seed_helper.go"; done
timeout 900 go test -vet=off -count=1 -run "$RX" ./"$PKG"/ >/tmp/seed_demo_with.log 2>&1 && echo "demo_with_patch=PASS(unexpected)" || echo "demo_with_patch=fail(expected)"
git apply -R "$SD/patch.diff"
timeout 900 go test -vet=off -count=1 -run "$RX" ./"$PKG"/ >/tmp/seed_demo_without.log 2>&1 && echo "demo_without_patch=pass(expected)" || echo "demo_without_patch=FAIL(unexpected)"
rm -f "$PKG"/zz_seed_demo_test.go $HELPERS; git checkout -q -- .; git status --short | grep -v '^??' | head -3
