package symx

import (
	"encoding/json"
	"fmt"
	"os"
	"runtime/debug"
	"strings"
)

type Case struct {
	Harness string            `json:"harness"`
	Inputs  map[string]string `json:"inputs"`
	Repeat  int               `json:"repeat"` // run up to this many times until the outcome is not "ok" (schedule / map-order dependent cases)
}

type CaseResult struct {
	Idx     int      `json:"idx"`
	Harness string   `json:"harness"`
	Outcome string   `json:"outcome"` // ok | panic | checkfail | assumefail | unknown-harness
	Label   string   `json:"label"`
	Obs     []string `json:"obs"`
	Stack   string   `json:"stack,omitempty"`
}

// RunCases executes the cases listed in $VERIF_CASES against the natively compiled harness
// functions and writes one JSON result per line to $VERIF_OUT.
func RunCases(hs map[string]func()) {
	in := os.Getenv("VERIF_CASES")
	out := os.Getenv("VERIF_OUT")
	if in == "" || out == "" {
		return
	}
	SetThorough(os.Getenv("VERIF_TIER") == "thorough")
	data, err := os.ReadFile(in)
	if err != nil {
		panic(err)
	}
	var cases []Case
	if err := json.Unmarshal(data, &cases); err != nil {
		panic(err)
	}
	f, err := os.Create(out)
	if err != nil {
		panic(err)
	}
	defer f.Close()
	enc := json.NewEncoder(f)
	for i, c := range cases {
		res := CaseResult{Idx: i, Harness: c.Harness}
		h, ok := hs[c.Harness]
		if !ok {
			res.Outcome = "unknown-harness"
			enc.Encode(res)
			continue
		}
		reps := c.Repeat
		if reps < 1 {
			reps = 1
		}
		for rep := 0; rep < reps; rep++ {
			res = CaseResult{Idx: i, Harness: c.Harness}
			func() {
				defer func() {
					r := recover()
					res.Obs = ObsLog
					switch x := r.(type) {
					case nil:
						res.Outcome = "ok"
						if allocExceeded() {
							res.Outcome = "allocfail"
							res.Label = "allocation beyond limit"
						}
					case CheckFailure:
						res.Outcome = "checkfail"
						res.Label = x.Label
					case assumeFailed:
						res.Outcome = "assumefail"
					default:
						res.Outcome = "panic"
						if e, ok := r.(error); ok {
							res.Label = e.Error()
						} else {
							res.Label = fmt.Sprint(r)
						}
						st := string(debug.Stack())
						if len(st) > 4000 {
							st = st[:4000]
						}
						res.Stack = strings.ReplaceAll(st, "\t", " ")
					}
				}()
				SetCase(c.Inputs)
				h()
			}()
			if res.Outcome != "ok" {
				break
			}
		}
		enc.Encode(res)
	}
}
