// Package symx is the harness-side API of the gosym symbolic executor.
//
// Under gosym every function below is intercepted (its body is never entered): inputs become
// SMT variables, Check becomes a solver query.  Compiled natively (replay / translator
// validation) the bodies below run instead: inputs are read from the current replay case.
package symx

import (
	"encoding/hex"
	"fmt"
	"math/big"
	"runtime"
	"strconv"
)

// ---- replay state (native mode only)

type CheckFailure struct{ Label string }

var (
	cur      map[string]string
	ObsLog   []string
	thorough bool
	cnt      map[string]int
)

func SetCase(inputs map[string]string) {
	cur = inputs
	ObsLog = nil
	allocLimit = -1
	cnt = map[string]int{}
}

// fresh mirrors the engine's naming of repeated inputs: name, name~1, name~2, ...
func fresh(name string) string {
	if cnt == nil {
		cnt = map[string]int{}
	}
	n := cnt[name]
	cnt[name] = n + 1
	if n == 0 {
		return name
	}
	return fmt.Sprintf("%s~%d", name, n)
}
func SetThorough(b bool)               { thorough = b }

func get(name string) (string, bool) {
	v, ok := cur[name]
	return v, ok
}

func getInt(name string) *big.Int {
	s, ok := get(name)
	if !ok {
		return new(big.Int)
	}
	v, ok := new(big.Int).SetString(s, 10)
	if !ok {
		panic("symx: bad integer for " + name + ": " + s)
	}
	return v
}

// ---- inputs

// Bytes returns n arbitrary bytes.
func Bytes(name string, n int) []byte { return bytesNamed(fresh(name), n) }

func bytesNamed(name string, n int) []byte {
	s, _ := get(name)
	b, err := hex.DecodeString(s)
	if err != nil {
		panic(err)
	}
	out := make([]byte, n)
	copy(out, b)
	return out
}

// BytesRange returns an arbitrary byte string of length lo..hi (the length is a forked choice).
func BytesRange(name string, lo, hi int) []byte {
	name = fresh(name)
	n := int(getInt(name + "#len").Int64())
	if n < lo {
		n = lo
	}
	if n > hi {
		n = hi
	}
	return bytesNamed(name, n)
}

func Str(name string, n int) string { return string(Bytes(name, n)) }

func U8(name string) uint8   { return uint8(getInt(fresh(name)).Uint64()) }
func U16(name string) uint16 { return uint16(getInt(fresh(name)).Uint64()) }
func U32(name string) uint32 { return uint32(getInt(fresh(name)).Uint64()) }
func U64(name string) uint64 { return getInt(fresh(name)).Uint64() }
func Int(name string) int    { return int(int64(getInt(fresh(name)).Uint64())) }
func I64(name string) int64  { return int64(getInt(fresh(name)).Uint64()) }
func Bool(name string) bool  { return getInt(fresh(name)).Sign() != 0 }

// Big returns an arbitrary integer 0 <= v < 2^bits.
func Big(name string, bits int) *big.Int { return getInt(fresh(name)) }

// BigSigned returns an arbitrary integer -2^bits < v < 2^bits.
func BigSigned(name string, bits int) *big.Int { return getInt(fresh(name)) }

// Choice returns an arbitrary value in [0,n); each value is explored on its own path.
func Choice(name string, n int) int {
	v := int(getInt(fresh(name)).Int64())
	if v < 0 || v >= n {
		return 0
	}
	return v
}

// ---- assumptions, assertions, observations

type assumeFailed struct{}

func Assume(c bool) {
	if !c {
		panic(assumeFailed{})
	}
}

func IsAssumeFailed(r interface{}) bool { _, ok := r.(assumeFailed); return ok }

func Check(c bool, label string) {
	if !c {
		panic(CheckFailure{label})
	}
}

func Reach(label string) {}

func Thorough() bool { return thorough }

// SymbolicMapOrder makes every later `range` over a map on this path iterate in an arbitrary
// (solver-chosen) order. Natively it is a no-op: Go's own randomisation applies.
func SymbolicMapOrder(on bool) {}

func Observe(label string, v interface{}) {
	var s string
	switch x := v.(type) {
	case []byte:
		s = hex.EncodeToString(x)
	case string:
		s = hex.EncodeToString([]byte(x))
	case bool:
		s = strconv.FormatBool(x)
	case int:
		s = strconv.FormatInt(int64(x), 10)
	case int64:
		s = strconv.FormatInt(x, 10)
	case int32:
		s = strconv.FormatInt(int64(x), 10)
	case uint:
		s = strconv.FormatUint(uint64(x), 10)
	case uint8:
		s = strconv.FormatUint(uint64(x), 10)
	case uint16:
		s = strconv.FormatUint(uint64(x), 10)
	case uint32:
		s = strconv.FormatUint(uint64(x), 10)
	case uint64:
		s = strconv.FormatUint(x, 10)
	case *big.Int:
		if x == nil {
			s = "<nil>"
		} else {
			s = x.String()
		}
	default:
		s = fmt.Sprintf("%v", v)
	}
	ObsLog = append(ObsLog, label+"="+s)
}

// ---- term-level helpers (avoid path forking on && / || / byte loops)

func And(a, b bool) bool     { return a && b }
func Or(a, b bool) bool      { return a || b }
func Not(a bool) bool        { return !a }
func Implies(a, b bool) bool { return !a || b }

func BytesEq(a, b []byte) bool {
	if len(a) != len(b) {
		return false
	}
	for i := range a {
		if a[i] != b[i] {
			return false
		}
	}
	return true
}

func IteU64(c bool, a, b uint64) uint64 {
	if c {
		return a
	}
	return b
}

// Concrete reports whether v is a compile-time-like constant on this path (always true natively).
func Concrete(v uint64) bool { return true }

// Keccak256Model / hash stubs are handled inside the engine; nothing here.

// Option sets an engine option for this path (no-op natively).
func Option(name string, v int) {}

// AllocLimit: after this call any single slice allocation (make / reflect.MakeSlice) of more
// than n elements on this path is reported as a violation "allocation beyond limit".
func AllocLimit(n int) {
	var ms runtime.MemStats
	runtime.ReadMemStats(&ms)
	allocBase = ms.TotalAlloc
	allocLimit = n
}

var (
	allocLimit = -1
	allocBase  uint64
)

// allocExceeded is consulted by RunCases after the harness returned.
func allocExceeded() bool {
	if allocLimit < 0 {
		return false
	}
	var ms runtime.MemStats
	runtime.ReadMemStats(&ms)
	return ms.TotalAlloc-allocBase > uint64(allocLimit)*256+(1<<20)
}

// AssumeRange constrains every byte of b to lo..hi (an assumption that is always satisfiable).
func AssumeRange(b []byte, lo, hi byte) {
	for _, x := range b {
		if x < lo || x > hi {
			panic(assumeFailed{})
		}
	}
}

// Digits returns a string of n arbitrary decimal digit characters.
func Digits(name string, n int) string {
	s, _ := get(fresh(name))
	for len(s) < n {
		s = "0" + s
	}
	return s[:n]
}
