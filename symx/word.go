package symx

import "math/big"

// 256-bit reference semantics (Yellow Paper) on big-endian words. Under gosym each function is
// a single bit-vector operation on (_ BitVec 256); natively it is computed with math/big.

type W = [32]byte

var two256 = new(big.Int).Lsh(big.NewInt(1), 256)
var two255 = new(big.Int).Lsh(big.NewInt(1), 255)

func wToBig(a W) *big.Int { return new(big.Int).SetBytes(a[:]) }
func wSigned(a W) *big.Int {
	v := wToBig(a)
	if v.Cmp(two255) >= 0 {
		v.Sub(v, two256)
	}
	return v
}
func bigToW(v *big.Int) W {
	var w W
	m := new(big.Int).Mod(v, two256)
	m.FillBytes(w[:])
	return w
}
func boolW(b bool) W {
	var w W
	if b {
		w[31] = 1
	}
	return w
}

func WAdd(a, b W) W { return bigToW(new(big.Int).Add(wToBig(a), wToBig(b))) }
func WSub(a, b W) W { return bigToW(new(big.Int).Sub(wToBig(a), wToBig(b))) }
func WMul(a, b W) W { return bigToW(new(big.Int).Mul(wToBig(a), wToBig(b))) }
func WDiv(a, b W) W {
	if wToBig(b).Sign() == 0 {
		return W{}
	}
	return bigToW(new(big.Int).Quo(wToBig(a), wToBig(b)))
}
func WMod(a, b W) W {
	if wToBig(b).Sign() == 0 {
		return W{}
	}
	return bigToW(new(big.Int).Rem(wToBig(a), wToBig(b)))
}
func WSDiv(a, b W) W {
	if wToBig(b).Sign() == 0 {
		return W{}
	}
	return bigToW(new(big.Int).Quo(wSigned(a), wSigned(b)))
}
func WSMod(a, b W) W {
	if wToBig(b).Sign() == 0 {
		return W{}
	}
	return bigToW(new(big.Int).Rem(wSigned(a), wSigned(b)))
}
func WLt(a, b W) W     { return boolW(wToBig(a).Cmp(wToBig(b)) < 0) }
func WGt(a, b W) W     { return boolW(wToBig(a).Cmp(wToBig(b)) > 0) }
func WSlt(a, b W) W    { return boolW(wSigned(a).Cmp(wSigned(b)) < 0) }
func WSgt(a, b W) W    { return boolW(wSigned(a).Cmp(wSigned(b)) > 0) }
func WEq(a, b W) W     { return boolW(a == b) }
func WIsZero(a W) W    { return boolW(a == W{}) }
func WAnd(a, b W) W    { return bigToW(new(big.Int).And(wToBig(a), wToBig(b))) }
func WOr(a, b W) W     { return bigToW(new(big.Int).Or(wToBig(a), wToBig(b))) }
func WXor(a, b W) W    { return bigToW(new(big.Int).Xor(wToBig(a), wToBig(b))) }
func WNot(a W) W       { return bigToW(new(big.Int).Sub(new(big.Int).Sub(two256, big.NewInt(1)), wToBig(a))) }
func WByte(i, x W) W {
	n := wToBig(i)
	if n.Cmp(big.NewInt(32)) >= 0 {
		return W{}
	}
	var w W
	w[31] = x[n.Int64()]
	return w
}
func WShl(sh, x W) W {
	n := wToBig(sh)
	if n.Cmp(big.NewInt(256)) >= 0 {
		return W{}
	}
	return bigToW(new(big.Int).Lsh(wToBig(x), uint(n.Int64())))
}
func WShr(sh, x W) W {
	n := wToBig(sh)
	if n.Cmp(big.NewInt(256)) >= 0 {
		return W{}
	}
	return bigToW(new(big.Int).Rsh(wToBig(x), uint(n.Int64())))
}
func WSar(sh, x W) W {
	n := wToBig(sh)
	v := wSigned(x)
	if n.Cmp(big.NewInt(256)) >= 0 {
		if v.Sign() < 0 {
			return bigToW(big.NewInt(-1))
		}
		return W{}
	}
	return bigToW(new(big.Int).Rsh(v, uint(n.Int64())))
}

// WSignExtend: Yellow Paper SIGNEXTEND(b, x): for b < 31 extend the sign bit of byte b (counting
// from the least significant byte) through the higher bytes; otherwise x.
func WSignExtend(b, x W) W {
	n := wToBig(b)
	if n.Cmp(big.NewInt(31)) >= 0 {
		return x
	}
	k := int(n.Int64())
	bit := uint(8*k + 7)
	v := wToBig(x)
	mask := new(big.Int).Sub(new(big.Int).Lsh(big.NewInt(1), bit+1), big.NewInt(1))
	low := new(big.Int).And(v, mask)
	if v.Bit(int(bit)) == 1 {
		high := new(big.Int).Sub(new(big.Int).Sub(two256, big.NewInt(1)), mask)
		return bigToW(new(big.Int).Or(low, high))
	}
	return bigToW(low)
}

func WFromU64(v uint64) W { return bigToW(new(big.Int).SetUint64(v)) }
func WEqual(a, b W) bool  { return a == b }

func WAddMod(a, b, m W) W {
	if wToBig(m).Sign() == 0 {
		return W{}
	}
	s := new(big.Int).Add(wToBig(a), wToBig(b))
	return bigToW(s.Mod(s, wToBig(m)))
}
func WMulMod(a, b, m W) W {
	if wToBig(m).Sign() == 0 {
		return W{}
	}
	s := new(big.Int).Mul(wToBig(a), wToBig(b))
	return bigToW(s.Mod(s, wToBig(m)))
}
func WExp(b, e W) W { return bigToW(new(big.Int).Exp(wToBig(b), wToBig(e), two256)) }
